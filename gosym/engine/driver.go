package engine

import (
	"fmt"
	"go/token"
	"go/types"
	"os"
	"regexp"
	"runtime/debug"
	"sort"
	"strings"

	"golang.org/x/tools/go/packages"
	"golang.org/x/tools/go/ssa"
	"golang.org/x/tools/go/ssa/ssautil"

	"gosym/smt"
)

func mustDeref(t types.Type) types.Type {
	if p, ok := t.Underlying().(*types.Pointer); ok {
		return p.Elem()
	}
	panic(fmt.Sprintf("mustDeref: %s is not a pointer", t))
}

// isControl: everything except a panic of the target program passes through target defers/recovers.
func isControl(r interface{}) bool {
	switch r.(type) {
	case targetPanic, runtimeErr:
		return false
	}
	return true
}

const RepoMod = "github.com/pokt-network/posmint"

// Program is the loaded SSA of the repository under test (shared by all workers, read-only).
type Program struct {
	Prog     *ssa.Program
	Fset     *token.FileSet
	Pkgs     map[string]*ssa.Package
	InitOK   map[string]bool // extra packages whose init may run
	LoadSecs float64
}

// stdlib packages whose package initialiser is run and whose code is interpreted from SSA.
var initAllow = map[string]bool{
	"bytes": true, "strings": true, "sort": true, "strconv": true, "unicode": true, "unicode/utf8": true,
	"math": true, "math/bits": true, "encoding/binary": true, "encoding/hex": true, "container/list": true,
	"io": true, "context": true, "encoding/base64": true, "math/big": false, "time": true,
	"github.com/tendermint/tm-db": true, "github.com/tendermint/iavl": true, "github.com/pkg/errors": false, "sync": false, "sync/atomic": false,
	"unicode/utf16": true, "path": true, "net/url": true, "slices": true, "cmp": true, "internal/bytealg": true, "internal/itoa": true,
	"internal/stringslite": true, "iter": true, "maps": true, "internal/byteorder": true,
}

func (p *Program) allowInit(pkg *ssa.Package) bool {
	path := pkg.Pkg.Path()
	if strings.HasPrefix(path, RepoMod) {
		return true
	}
	if v, ok := p.InitOK[path]; ok {
		return v
	}
	return initAllow[path]
}

// denyFunc reports functions we refuse to interpret from SSA (reflection/IO heavy dependency code):
// they must be reached through an intrinsic instead.
var denyPkgs = []string{
	"github.com/tendermint/go-amino", "encoding/json", "reflect",
	"github.com/syndtr/goleveldb", "net/http", "os", "crypto/", "golang.org/x/crypto",
	"github.com/btcsuite", "regexp", "fmt", "log", "runtime", "syscall", "github.com/tendermint/tendermint/rpc",
	"github.com/tendermint/tendermint/node", "github.com/gogo/protobuf", "github.com/golang/protobuf",
	"gopkg.in/yaml", "text/", "math/big", "bufio", "io/ioutil", "github.com/tendermint/tendermint/p2p", "math/rand",
}

func (p *Program) denyFunc(fn *ssa.Function) bool {
	if fn.Pkg == nil {
		return false
	}
	path := fn.Pkg.Pkg.Path()
	if path == "reflect" { // the fake reflect package is handled by externals
		return false
	}
	// go-amino's free-standing varint/byte-slice primitives are plain code (used by tendermint/iavl node encoding)
	if path == "github.com/tendermint/go-amino" && fn.Signature.Recv() == nil {
		n := fn.Name()
		if strings.HasPrefix(n, "Encode") || strings.HasPrefix(n, "Decode") || strings.HasSuffix(n, "Size") || n == "slide" {
			return false
		}
	}
	if path == "net" {
		return true
	}
	for _, d := range denyPkgs {
		if path == d || strings.HasPrefix(path, d) {
			return true
		}
	}
	return false
}

// Load loads the given package patterns from dir with the overlay applied and builds SSA.
func Load(dir string, patterns []string, overlay map[string][]byte) (*Program, error) {
	cfg := &packages.Config{
		Mode:    packages.LoadAllSyntax,
		Dir:     dir,
		Overlay: overlay,
		Env:     append(os.Environ(), "GOFLAGS=-mod=mod", "GOPROXY=off", "GOSUMDB=off", "GOTOOLCHAIN=local"),
		Tests:   false,
	}
	initial, err := packages.Load(cfg, patterns...)
	if err != nil {
		return nil, err
	}
	var errs []string
	packages.Visit(initial, nil, func(p *packages.Package) {
		for _, e := range p.Errors {
			errs = append(errs, e.Error())
		}
	})
	if len(errs) > 0 {
		sort.Strings(errs)
		if len(errs) > 20 {
			errs = errs[:20]
		}
		return nil, fmt.Errorf("package load errors:\n%s", strings.Join(errs, "\n"))
	}
	prog, _ := ssautil.AllPackages(initial, ssa.InstantiateGenerics|ssa.SanityCheckFunctions&0)
	prog.Build()
	P := &Program{Prog: prog, Fset: prog.Fset, Pkgs: map[string]*ssa.Package{}, InitOK: map[string]bool{}}
	for _, pk := range prog.AllPackages() {
		P.Pkgs[pk.Pkg.Path()] = pk
	}
	return P, nil
}

func (i *interpreter) checkGlobal(g *ssa.Global) {
	if g.Pkg == nil || i.inited[g.Pkg] || i.P.allowInit(g.Pkg) {
		return
	}
	name := g.Pkg.Pkg.Path() + "." + g.Name()
	if globalAllow[name] {
		return
	}
	if f, ok := lazyGlobals[name]; ok {
		if !i.lazyDone[name] {
			i.lazyDone[name] = true
			*i.globals[g] = f(i)
		}
		return
	}
	unsup("read of global %s.%s of a package whose initialiser is not run", g.Pkg.Pkg.Path(), g.Name())
}

// lazyGlobals: globals of packages whose initialiser is not run, initialised on first read.
var lazyGlobals = map[string]func(i *interpreter) value{}

func init() {
	lazyGlobals["github.com/tendermint/iavl.ErrVersionDoesNotExist"] = func(i *interpreter) value { return i.mkError("version does not exist") }
}

var globalAllow = map[string]bool{
	"github.com/tendermint/tendermint/types.TM2PB": true, // tm2pb{} : empty struct value
	"github.com/tendermint/tendermint/types.PB2TM": true,
}

// newInterp builds a fresh interpreter (fresh globals) and runs the allowed package initialisers.
func (p *Program) newInterp(m *Machine) *interpreter {
	i := &interpreter{
		prog:       p.Prog,
		globals:    make(map[*ssa.Global]*value),
		sizes:      &types.StdSizes{WordSize: 8, MaxAlign: 8},
		goroutines: 1,
		m:          m,
		P:          p,
		inited:     map[*ssa.Package]bool{},
		onceDone:   map[*value]bool{},
		lazyDone:   map[string]bool{},
		digests:    map[*value][]value{},
		regexps:    map[*value]*regexp.Regexp{},
	}
	runtimePkg := p.Prog.ImportedPackage("runtime")
	if runtimePkg == nil {
		panic("ssa.Program doesn't include runtime package")
	}
	i.runtimeErrorString = runtimePkg.Type("errorString").Object().Type()
	initReflect(i)
	for _, pkg := range p.Prog.AllPackages() {
		for _, mem := range pkg.Members {
			if g, ok := mem.(*ssa.Global); ok {
				cell := zero(mustDeref(g.Type()))
				i.globals[g] = &cell
			}
		}
	}
	return i
}

// PathResult is the outcome of executing one path.
type PathResult struct {
	Prefix      []int
	Trace       []Decision
	NewPrefixes [][]int
	Status      string // "ok", "violation", "unsupported", "ended", "panic", "engine-error", "undecided"
	Detail      string
	Asserts     []AssertRec
	Reached     []string
	Steps       int64
	Queries     int
	SolverNs    int64
	Unconfirmed bool
	Funcs       map[string]int
	Stubs       map[string]int
	Choices     map[string]int
	Model       smt.Model // model of the full path (for validation replays), if requested
	NVars       int
	SolverErrs  []string
}

type RunOpts struct {
	StepBudget int64
	CrossCheck bool
	Known      map[string]bool
	WantModel  bool
	Trace      bool
	Thorough   bool
	SlowMs     int
}

// RunPath executes harness fn following prefix.
func (p *Program) RunPath(fn *ssa.Function, prefix []int, proc *smt.Proc, mirrors []*smt.Proc, opts RunOpts) (res PathResult) {
	ctx := smt.NewCtx()
	sess := smt.NewSession(ctx, proc, mirrors)
	sess.SlowMs = opts.SlowMs
	m := &Machine{C: ctx, S: sess, Prefix: append([]int{}, prefix...), StepBudget: opts.StepBudget,
		names: map[string]int{}, Choices: map[string]int{}, Known: opts.Known, CrossCheck: opts.CrossCheck,
		Funcs: map[string]int{}, Stubs: map[string]int{}, Ghost: map[string]value{}, Thorough: opts.Thorough}
	if m.StepBudget == 0 {
		m.StepBudget = 20_000_000
	}
	res.Prefix = prefix
	var i *interpreter
	defer func() {
		r := recover()
		if i != nil {
			func() {
				defer func() { recover() }()
				i.killThreads()
			}()
		}
		if cc, ok := r.(childCrash); ok {
			r = cc.r
		}
		switch r := r.(type) {
		case nil:
			res.Status = "ok"
		case raceFound:
			res.Status = "violation"
			res.Detail = r.id
			if model, ok := m.PathModel(); ok {
				m.Asserts = append(m.Asserts, AssertRec{ID: r.id, Result: "violated", Model: model, Why: r.desc})
			} else {
				m.Asserts = append(m.Asserts, AssertRec{ID: r.id, Result: "unknown", Why: r.desc})
			}
		case deadlockErr:
			res.Status = "panic"
			res.Detail = "fatal error: " + r.desc
		case violation:
			res.Status = "violation"
			res.Detail = r.id
		case pathEnd:
			res.Status = "ended"
			res.Detail = r.reason
			for _, a := range m.Asserts {
				if a.Result == "unknown" {
					res.Status = "undecided"
					res.Detail = a.ID + ": " + a.Why
				}
			}
		case unsupported:
			res.Status = "unsupported"
			res.Detail = r.msg + " @ " + i.stackString()
		case exitPanic:
			res.Status = "panic"
			res.Detail = fmt.Sprintf("os.Exit(%d) escaped the harness", int(r))
		case targetPanic:
			res.Status = "panic"
			res.Detail = "uncaught panic: " + panicString(r.v)
		case runtimeErr:
			res.Status = "panic"
			res.Detail = "uncaught " + r.Error()
		default:
			res.Status = "engine-error"
			res.Detail = fmt.Sprintf("%v @ %s\n%s", r, i.stackString(), debug.Stack())
		}
		if res.Status == "panic" {
			// an uncaught panic is a candidate violation: get a model of the path
			if model, ok := m.PathModel(); ok {
				m.Asserts = append(m.Asserts, AssertRec{ID: "no-uncaught-panic", Result: "violated", Model: model, Why: res.Detail})
			} else {
				m.Asserts = append(m.Asserts, AssertRec{ID: "no-uncaught-panic", Result: "unknown", Why: res.Detail})
			}
		}
		if opts.WantModel && res.Status == "ok" {
			if model, ok := m.PathModel(); ok {
				res.Model = model
			}
		}
		sess.End()
		res.Trace = m.Trace
		res.NewPrefixes = m.NewPrefixes
		res.Asserts = m.Asserts
		res.Reached = m.Reached
		res.Steps = m.Steps
		res.Queries = sess.Queries
		res.SolverNs = sess.SolverNs
		res.Unconfirmed = m.Unconfirmed
		res.Funcs = m.Funcs
		res.Stubs = m.Stubs
		res.Choices = m.Choices
		res.NVars = len(ctx.Vars)
		res.SolverErrs = sess.Errors
		if len(sess.Errors) > 0 && (res.Status == "ok" || res.Status == "ended") {
			res.Status = "undecided"
			res.Detail = "solver error output: " + strings.Join(sess.Errors, "; ")
		}
	}()
	i = p.newInterp(m)
	if opts.Trace {
		i.mode |= EnableTracing
	}
	// run package initialisers of the harness package (transitively, subject to the allow list)
	if fn.Pkg != nil {
		call(i, nil, token.NoPos, fn.Pkg.Func("init"), nil)
	}
	i.inHarness = true
	call(i, nil, token.NoPos, fn, nil)
	return
}

func panicString(v value) string {
	if it, ok := v.(iface); ok {
		if s, ok := it.v.(string); ok {
			return s
		}
		return fmt.Sprintf("(%v) %s", it.t, toString(it.v))
	}
	return toString(v)
}

func (i *interpreter) stackString() string {
	if i == nil {
		return ""
	}
	var parts []string
	n := len(i.stack)
	for j := n - 1; j >= 0 && j >= n-6; j-- {
		parts = append(parts, i.stack[j].String())
	}
	return strings.Join(parts, " <- ")
}
