package engine

// The amino codec as an opaque, injective "box": Marshal* returns a one-cell
// byte token holding a deep copy of the value, Unmarshal* of such a token
// yields a deep copy again (with the normalisations amino applies).
// Decoding anything else than a token (or empty input) is UNSUPPORTED.

import (
	"encoding/json"
	"fmt"
	"go/types"
	"math/big"
	"reflect"
	"strings"

	"golang.org/x/tools/go/ssa"

	"gosym/smt"
)

const aminoPkg = "github.com/tendermint/go-amino"

// deepCopy copies a value graph preserving aliasing inside the graph.
type copier struct {
	ptrs map[*value]*value
	maps map[*omap]*omap
}

func deepCopy(v value) value {
	c := &copier{ptrs: map[*value]*value{}, maps: map[*omap]*omap{}}
	return c.cp(v)
}

func (c *copier) cp(v value) value {
	switch v := v.(type) {
	case structure:
		out := make(structure, len(v))
		for j := range v {
			out[j] = c.cp(v[j])
		}
		return out
	case array:
		out := make(array, len(v))
		for j := range v {
			out[j] = c.cp(v[j])
		}
		return out
	case []value:
		if v == nil {
			return v
		}
		out := make([]value, len(v))
		for j := range v {
			out[j] = c.cp(v[j])
		}
		return out
	case *value:
		if v == nil {
			return v
		}
		if p, ok := c.ptrs[v]; ok {
			return p
		}
		p := new(value)
		c.ptrs[v] = p
		*p = c.cp(*v)
		return p
	case iface:
		return iface{t: v.t, v: c.cp(v.v)}
	case *omap:
		if v == nil {
			return v
		}
		if m, ok := c.maps[v]; ok {
			return m
		}
		m := &omap{keyType: v.keyType, idx: map[value]int{}}
		c.maps[v] = m
		for j := range v.keys {
			if !v.dead[j] {
				k := c.cp(v.keys[j])
				m.keys = append(m.keys, k)
				m.vals = append(m.vals, c.cp(v.vals[j]))
				m.dead = append(m.dead, false)
				if fastKey(k) {
					m.idx[k] = len(m.keys) - 1
				} else {
					m.nslow++
				}
				m.n++
			}
		}
		return m
	case tuple:
		out := make(tuple, len(v))
		for j := range v {
			out[j] = c.cp(v[j])
		}
		return out
	}
	return v // scalars, strings, symbolic leaves, bigv, functions, closures, boxCell (immutable)
}

func namedPath(t types.Type) string {
	if n, ok := t.(*types.Named); ok && n.Obj().Pkg() != nil {
		return n.Obj().Pkg().Path() + "." + n.Obj().Name()
	}
	return ""
}

// aminoNormalize applies, in place on a fresh copy, what an amino round trip does to a value of type t.
func aminoNormalize(t types.Type, v value) value {
	switch namedPath(t) {
	case "time.Time":
		st := v.(structure)
		st[2] = (*value)(nil) // UTC
		return st
	case RepoMod + "/types.Int", RepoMod + "/types.Dec", RepoMod + "/types.Uint":
		st := v.(structure)
		if p, ok := st[0].(*value); ok && p == nil {
			st[0] = newBig(bigv{c: new(big.Int)})
		}
		return st
	case "math/big.Int":
		return v
	}
	switch u := t.Underlying().(type) {
	case *types.Struct:
		st, ok := v.(structure)
		if !ok {
			return v
		}
		for j := 0; j < u.NumFields(); j++ {
			st[j] = aminoNormalize(u.Field(j).Type(), st[j])
		}
		return st
	case *types.Array:
		a := v.(array)
		for j := range a {
			a[j] = aminoNormalize(u.Elem(), a[j])
		}
		return a
	case *types.Slice:
		s := v.([]value)
		if len(s) == 0 {
			return []value(nil)
		}
		if b, ok := u.Elem().Underlying().(*types.Basic); ok && b.Info()&types.IsNumeric != 0 {
			return s
		}
		for j := range s {
			s[j] = aminoNormalize(u.Elem(), s[j])
		}
		return s
	case *types.Pointer:
		p := v.(*value)
		if p == nil {
			return v
		}
		*p = aminoNormalize(u.Elem(), *p)
		return p
	case *types.Interface:
		it := v.(iface)
		if it.t == nil {
			return v
		}
		return iface{t: it.t, v: aminoNormalize(it.t, it.v)}
	}
	return v
}

func (i *interpreter) boxMarshal(kind string, o value) value {
	it := o.(iface)
	if it.t == nil {
		unsup("amino marshal of nil interface")
	}
	// amino encodes a non-nil pointer exactly like the value it points to
	t, v := it.t, it.v
	for {
		pt, ok := t.Underlying().(*types.Pointer)
		if !ok {
			break
		}
		p, ok := v.(*value)
		if !ok || p == nil {
			break
		}
		t, v = pt.Elem(), *p
	}
	cp := aminoNormalize(t, deepCopy(v))
	return []value{boxCell{kind: kind, t: t, v: cp}}
}

// boxUnmarshal stores the content of token bz into the pointer held by ptr; returns an error message or "".
func (i *interpreter) boxUnmarshal(kind string, bz value, ptr value) string {
	bs, _ := bz.([]value)
	if len(bs) == 0 {
		return "amino: cannot decode empty bytes"
	}
	box, ok := bs[0].(boxCell)
	if !ok || len(bs) != 1 {
		unsup("amino %s-unmarshal of raw (non-token) bytes", kind)
	}
	if box.kind != kind {
		unsup("amino token kind mismatch: marshalled as %s, unmarshalled as %s", box.kind, kind)
	}
	pit := ptr.(iface)
	pt, ok := pit.t.Underlying().(*types.Pointer)
	if !ok {
		return "amino: Unmarshal expects a pointer"
	}
	dst := pit.v.(*value)
	if dst == nil {
		return "amino: Unmarshal into nil pointer"
	}
	elem := pt.Elem()
	src := deepCopy(box.v)
	// destination is an interface variable: store the dynamic value
	if _, isIface := elem.Underlying().(*types.Interface); isIface {
		if types.AssignableTo(box.t, elem) {
			*dst = iface{t: box.t, v: src}
			return ""
		}
		// registered concrete type is the pointer type (methods with pointer receivers)
		if pt := types.NewPointer(box.t); types.AssignableTo(pt, elem) {
			cell := src
			*dst = iface{t: pt, v: &cell}
			return ""
		}
		return fmt.Sprintf("amino: cannot decode a %s into interface %s", box.t, elem)
	}
	switch {
	case types.Identical(box.t, elem):
		src = aminoInPlace(elem, *dst, src)
		store(elem, dst, src)
	case isPtrTo(box.t, elem):
		p := src.(*value)
		if p == nil {
			unsup("amino: nil pointer token")
		}
		store(elem, dst, *p)
	case isPtrTo(elem, box.t):
		// marshalled T, decoding into *T variable (pointer to pointer)
		cell := src
		*dst = &cell
	case box.kind == "json" && jsonIntClass(box.t) != 0 && jsonIntClass(box.t) == jsonIntClass(elem):
		// amino-JSON writes int64/uint64/int/uint as decimal strings and the smaller integers as numbers: an integer of one
		// kind decodes into another kind of the same class whenever its value is in range
		c := concreteBig(src)
		if c == nil {
			unsup("amino-JSON: symbolic integer decoded into another integer kind")
		}
		v, ok := intOfKind(elem.Underlying().(*types.Basic).Kind(), c)
		if !ok {
			return fmt.Sprintf("amino: value %s out of range for %s", c, elem)
		}
		store(elem, dst, v)
	default:
		// decoding into a different type: treated as a decode error (amino would fail or, for some
		// representation-compatible types, succeed: that case is outside the model and listed as an assumption)
		i.m.Stubs["amino: type mismatch treated as decode error"]++
		return fmt.Sprintf("amino: cannot decode a %s into %s", box.t, elem)
	}
	return ""
}

// jsonIntClass: 2 for the integer kinds amino-JSON writes as strings (64 bit), 1 for those it writes as numbers, 0 otherwise.
func jsonIntClass(t types.Type) int {
	b, ok := t.Underlying().(*types.Basic)
	if !ok {
		return 0
	}
	switch b.Kind() {
	case types.Int64, types.Uint64, types.Int, types.Uint:
		return 2
	case types.Int8, types.Int16, types.Int32, types.Uint8, types.Uint16, types.Uint32:
		return 1
	}
	return 0
}

func intOfKind(k types.BasicKind, c *big.Int) (value, bool) {
	switch k {
	case types.Int64:
		return c.Int64(), c.IsInt64()
	case types.Int:
		return int(c.Int64()), c.IsInt64()
	case types.Uint64:
		return c.Uint64(), c.IsUint64()
	case types.Uint:
		return uint(c.Uint64()), c.IsUint64()
	case types.Int32:
		return int32(c.Int64()), c.IsInt64() && c.Int64() >= -1<<31 && c.Int64() < 1<<31
	case types.Int16:
		return int16(c.Int64()), c.IsInt64() && c.Int64() >= -1<<15 && c.Int64() < 1<<15
	case types.Int8:
		return int8(c.Int64()), c.IsInt64() && c.Int64() >= -1<<7 && c.Int64() < 1<<7
	case types.Uint32:
		return uint32(c.Uint64()), c.IsUint64() && c.Uint64() < 1<<32
	case types.Uint16:
		return uint16(c.Uint64()), c.IsUint64() && c.Uint64() < 1<<16
	case types.Uint8:
		return uint8(c.Uint64()), c.IsUint64() && c.Uint64() < 1<<8
	}
	return nil, false
}

func isPtrTo(p, t types.Type) bool {
	pp, ok := p.Underlying().(*types.Pointer)
	return ok && types.Identical(pp.Elem(), t)
}

func init() {
	reg := func(name string, f externalFn) {
		externals["(*"+aminoPkg+".Codec)."+name] = f
	}
	nopSelf := func(fr *frame, a []value) value { return a[0] }
	nop := func(fr *frame, a []value) value { return nil }
	externals[aminoPkg+".NewCodec"] = func(fr *frame, a []value) value {
		pkg := fr.i.prog.ImportedPackage(aminoPkg)
		t := pkg.Type("Codec").Type()
		v := zero(t)
		return &v
	}
	reg("Seal", nopSelf)
	reg("RegisterInterface", nop)
	reg("RegisterConcrete", nop)
	for _, k := range []struct{ name, kind string }{
		{"BinaryBare", "bin"}, {"BinaryLengthPrefixed", "binlp"}, {"JSON", "json"},
	} {
		kind := k.kind
		reg("Marshal"+k.name, func(fr *frame, a []value) value {
			return tuple{fr.i.boxMarshal(kind, a[1]), iface{}}
		})
		reg("MustMarshal"+k.name, func(fr *frame, a []value) value {
			return fr.i.boxMarshal(kind, a[1])
		})
		reg("Unmarshal"+k.name, func(fr *frame, a []value) value {
			if msg := fr.i.boxUnmarshal(kind, a[1], a[2]); msg != "" {
				return fr.i.mkError(msg)
			}
			return iface{}
		})
		reg("MustUnmarshal"+k.name, func(fr *frame, a []value) value {
			if msg := fr.i.boxUnmarshal(kind, a[1], a[2]); msg != "" {
				panic(targetPanic{fr.i.mkError(msg)})
			}
			return nil
		})
		// package-level helpers use the global codec
		externals[aminoPkg+".MustMarshal"+k.name] = func(fr *frame, a []value) value {
			return fr.i.boxMarshal(kind, a[0])
		}
		externals[aminoPkg+".Marshal"+k.name] = func(fr *frame, a []value) value {
			return tuple{fr.i.boxMarshal(kind, a[0]), iface{}}
		}
		externals[aminoPkg+".MustUnmarshal"+k.name] = func(fr *frame, a []value) value {
			if msg := fr.i.boxUnmarshal(kind, a[0], a[1]); msg != "" {
				panic(targetPanic{fr.i.mkError(msg)})
			}
			return nil
		}
		externals[aminoPkg+".Unmarshal"+k.name] = func(fr *frame, a []value) value {
			if msg := fr.i.boxUnmarshal(kind, a[0], a[1]); msg != "" {
				return fr.i.mkError(msg)
			}
			return iface{}
		}
	}
	reg("MarshalJSONIndent", func(fr *frame, a []value) value {
		return tuple{fr.i.boxMarshal("json", a[1]), iface{}}
	})
	_ = fmt.Sprint
	_ = (*ssa.Function)(nil)
}

func concBytes(v value) ([]byte, bool) {
	bs, ok := v.([]value)
	if !ok {
		return nil, v == nil
	}
	out := make([]byte, len(bs))
	for j, c := range bs {
		b, ok := c.(uint8)
		if !ok {
			return nil, false
		}
		out[j] = b
	}
	return out, true
}

func bytesVal(b []byte) value {
	out := make([]value, len(b))
	for j, c := range b {
		out[j] = c
	}
	return out
}

func init() {
	externals["encoding/json.Marshal"] = func(fr *frame, a []value) value {
		it := a[0].(iface)
		switch v := it.v.(type) {
		case string, bool, int, int64, uint64, int32, uint32, uint8, float64:
			if _, named := it.t.(*types.Named); !named {
				bz, err := json.Marshal(v)
				if err != nil {
					return tuple{[]value(nil), fr.i.mkError(err.Error())}
				}
				return tuple{bytesVal(bz), iface{}}
			}
		}
		return tuple{fr.i.boxMarshal("gojson", a[0]), iface{}}
	}
	externals["encoding/json.Unmarshal"] = func(fr *frame, a []value) value {
		if raw, ok := concBytes(a[0]); ok {
			pit := a[1].(iface)
			if pt, ok := pit.t.Underlying().(*types.Pointer); ok {
				if b, ok := pt.Elem().Underlying().(*types.Basic); ok && b.Kind() == types.String {
					var s string
					if err := json.Unmarshal(raw, &s); err != nil {
						return fr.i.mkError(err.Error())
					}
					*(pit.v.(*value)) = s
					return iface{}
				}
			}
			unsup("encoding/json.Unmarshal of raw bytes into %s", pit.t)
		}
		if msg := fr.i.boxUnmarshal("gojson", a[0], a[1]); msg != "" {
			return fr.i.mkError(msg)
		}
		return iface{}
	}
}

// ---- encoding/json numbers through types.SortJSON ----
//
// SortJSON decodes into interface{} and re-encodes: every JSON *number* passes through float64. encoding/json
// writes 64-bit integers as numbers (amino's JSON writes them as strings), so after SortJSON an integer of a
// "gojson" token is only known up to float64 rounding. jsonFloatRound applies that rounding (round-half-even to a
// 53-bit mantissa) to every 64-bit integer leaf that encoding/json would write as a number.

func (i *interpreter) round53(t *smt.Term) *smt.Term {
	C := i.m.C
	abs := C.Abs(t)
	// |t| < 2^64: k = 1..11 extra bits; the last matching threshold (largest k) wins
	res := abs
	for k := 1; k <= 11; k++ {
		p := C.Const(pow2(k))
		q := C.Div(abs, p)
		r := C.Mod(abs, p)
		half := C.Const(pow2(k - 1))
		up := C.Or(C.Lt(half, r), C.And(C.Eq(r, half), C.Eq(C.Mod(q, C.ConstI(2)), C.ConstI(1))))
		rounded := C.Mul(C.Add(q, C.Ite(up, C.ConstI(1), C.ConstI(0))), p)
		res = C.Ite(C.Le(C.Const(pow2(52+k)), abs), rounded, res)
	}
	return C.Ite(C.Lt(t, C.ConstI(0)), C.Neg(res), res)
}

func hasJSONMarshaler(t types.Type) bool {
	for _, tt := range []types.Type{t, types.NewPointer(t)} {
		ms := types.NewMethodSet(tt)
		for j := 0; j < ms.Len(); j++ {
			if n := ms.At(j).Obj().Name(); n == "MarshalJSON" || n == "MarshalText" {
				return true
			}
		}
	}
	return false
}

// jsonFloatRound returns v (of static type t) with float64 rounding applied to the integer leaves encoding/json
// writes as numbers; changed reports whether anything symbolic was rounded.
func (i *interpreter) jsonFloatRound(t types.Type, v value, changed *bool) value {
	if hasJSONMarshaler(t) {
		return v
	}
	switch u := t.Underlying().(type) {
	case *types.Basic:
		switch u.Kind() {
		case types.Int64, types.Uint64, types.Int, types.Uint, types.Uintptr:
			if s, ok := v.(symInt); ok {
				if s.t.Lo != nil && s.t.Hi != nil && s.t.Lo.CmpAbs(pow2(53)) <= 0 && s.t.Hi.CmpAbs(pow2(53)) <= 0 {
					return v
				}
				*changed = true
				return symInt{t: i.round53(s.t), k: s.k}
			}
		}
		return v
	case *types.Struct:
		sv, ok := v.(structure)
		if !ok {
			return v
		}
		out := make(structure, len(sv))
		copy(out, sv)
		for j := 0; j < u.NumFields(); j++ {
			f := u.Field(j)
			if !f.Exported() {
				continue
			}
			tag := reflectTag(u.Tag(j), "json")
			if tag == "-" || strings.HasSuffix(tag, ",string") {
				continue
			}
			out[j] = i.jsonFloatRound(f.Type(), sv[j], changed)
		}
		return out
	case *types.Pointer:
		p, ok := v.(*value)
		if !ok || p == nil {
			return v
		}
		nv := i.jsonFloatRound(u.Elem(), *p, changed)
		return &nv
	case *types.Slice:
		if b, ok := u.Elem().Underlying().(*types.Basic); ok && b.Kind() == types.Uint8 {
			return v // []byte: base64 text
		}
		sl, ok := v.([]value)
		if !ok || sl == nil {
			return v
		}
		out := make([]value, len(sl))
		for j := range sl {
			out[j] = i.jsonFloatRound(u.Elem(), sl[j], changed)
		}
		return out
	case *types.Array:
		av, ok := v.(array)
		if !ok {
			return v
		}
		out := make(array, len(av))
		for j := range av {
			out[j] = i.jsonFloatRound(u.Elem(), av[j], changed)
		}
		return out
	case *types.Interface:
		it, ok := v.(iface)
		if !ok || it.t == nil {
			return v
		}
		return iface{t: it.t, v: i.jsonFloatRound(it.t, it.v, changed)}
	}
	return v
}

// reflectTag extracts key from a struct tag.
func reflectTag(tag, key string) string {
	return reflect.StructTag(tag).Get(key)
}

// ---- gogo/golang protobuf Marshal/Unmarshal ----
// A value without symbolic leaves is rendered structurally into concrete bytes (deterministic, injective on the
// rendered structure; pointers are followed) and remembered, so that stores keyed or hashed by the bytes keep working
// (real IAVL trees); Unmarshal looks the bytes up.  A value with symbolic leaves becomes an opaque token like the
// amino codec's.  The wire format itself is not modelled.

func renderConcrete(v value, sb *strings.Builder, depth int) bool {
	if depth > 40 {
		return false
	}
	switch v := v.(type) {
	case nil:
		sb.WriteString("nil")
	case bool, int, int8, int16, int32, int64, uint, uint8, uint16, uint32, uint64, uintptr, float32, float64, string:
		fmt.Fprintf(sb, "%T:%v", v, v)
	case structure:
		sb.WriteString("{")
		for _, f := range v {
			if !renderConcrete(f, sb, depth+1) {
				return false
			}
			sb.WriteString(",")
		}
		sb.WriteString("}")
	case array:
		sb.WriteString("[")
		for _, f := range v {
			if !renderConcrete(f, sb, depth+1) {
				return false
			}
			sb.WriteString(",")
		}
		sb.WriteString("]")
	case []value:
		if v == nil {
			sb.WriteString("s-nil")
			return true
		}
		sb.WriteString("s[")
		for _, f := range v {
			if !renderConcrete(f, sb, depth+1) {
				return false
			}
			sb.WriteString(",")
		}
		sb.WriteString("]")
	case *value:
		if v == nil {
			sb.WriteString("p-nil")
			return true
		}
		sb.WriteString("&")
		return renderConcrete(*v, sb, depth+1)
	case iface:
		if v.t == nil {
			sb.WriteString("i-nil")
			return true
		}
		sb.WriteString("i(" + v.t.String() + ")")
		return renderConcrete(v.v, sb, depth+1)
	default:
		return false
	}
	return true
}

func init() {
	marshal := func(fr *frame, a []value) value {
		it := a[0].(iface)
		var sb strings.Builder
		sb.WriteString("proto|" + it.t.String() + "|")
		if renderConcrete(it.v, &sb, 0) {
			key := sb.String()
			if fr.i.protoTab == nil {
				fr.i.protoTab = map[string]iface{}
			}
			fr.i.protoTab[key] = iface{t: it.t, v: deepCopy(it.v)}
			fr.i.m.Stubs["protobuf Marshal: structural rendering of a concrete message (wire format not modelled)"]++
			return tuple{bytesVal([]byte(key)), iface{}}
		}
		return tuple{fr.i.boxMarshal("proto", a[0]), iface{}}
	}
	unmarshal := func(fr *frame, a []value) value {
		if raw, ok := concBytes(a[0]); ok && len(raw) > 0 {
			src, found := fr.i.protoTab[string(raw)]
			if !found {
				unsup("protobuf Unmarshal of bytes that no Marshal produced on this path")
			}
			pit := a[1].(iface)
			dst, ok1 := pit.v.(*value)
			sp, ok2 := src.v.(*value)
			if !ok1 || !ok2 || dst == nil || sp == nil || !sameType(pit.t, src.t) {
				return fr.i.mkError("proto: cannot unmarshal into a different message type")
			}
			*dst = deepCopy(*sp)
			return iface{}
		}
		if msg := fr.i.boxUnmarshal("proto", a[0], a[1]); msg != "" {
			return fr.i.mkError(msg)
		}
		return iface{}
	}
	for _, pkg := range []string{"github.com/gogo/protobuf/proto", "github.com/golang/protobuf/proto"} {
		externals[pkg+".Marshal"] = marshal
		externals[pkg+".Unmarshal"] = unmarshal
	}
}

// aminoInPlace: sdk.Int / Dec / Uint decode IN PLACE when the destination already holds a big integer
// (Int.UnmarshalAmino calls UnmarshalText on the existing *big.Int): the existing object is updated - visibly to every
// other holder of that pointer - and stays the destination's pointer.  Applied to the destination itself and, through
// struct fields and array elements, to the integers it contains.
func aminoInPlace(t types.Type, dst, src value) value {
	switch namedPath(t) {
	case RepoMod + "/types.Int", RepoMod + "/types.Dec", RepoMod + "/types.Uint":
		ds, ok1 := dst.(structure)
		ss, ok2 := src.(structure)
		if !ok1 || !ok2 || len(ds) != 1 || len(ss) != 1 {
			return src
		}
		dp, ok1 := ds[0].(*value)
		sp, ok2 := ss[0].(*value)
		if !ok1 || !ok2 || dp == nil || sp == nil {
			return src
		}
		setBig(dp, getBig(sp))
		return structure{dp}
	}
	switch u := t.Underlying().(type) {
	case *types.Struct:
		ds, ok1 := dst.(structure)
		ss, ok2 := src.(structure)
		if !ok1 || !ok2 || len(ds) != len(ss) || len(ss) != u.NumFields() {
			return src
		}
		out := make(structure, len(ss))
		for j := range ss {
			out[j] = aminoInPlace(u.Field(j).Type(), ds[j], ss[j])
		}
		return out
	}
	return src
}
