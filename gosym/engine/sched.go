package engine

// Goroutines, channels and mutexes: a deterministic cooperative scheduler.
//
// Every target goroutine is a host goroutine, but exactly one of them holds the "baton" and runs; the others wait on
// their resume channel.  A thread gives the baton away only when it blocks (channel operation, mutex, WaitGroup.Wait),
// yields (zz.Yield, runtime.Gosched, time.Sleep) or finishes; the next thread is the runnable one with the smallest
// id (threads that called Yield run last).  The schedule is therefore a deterministic function of the program: path
// re-execution stays exact.  Interleavings are not enumerated by the engine; a harness that wants a particular
// interleaving arranges it with Yield at the points it controls (e.g. inside a fake parent store).
//
// A target panic that escapes a goroutine crashes the program: it is re-raised in the main thread as an uncaught
// panic.  When every thread is blocked the path ends with a deadlock report (an uncaught-panic candidate).

import (
	"fmt"

	"golang.org/x/tools/go/ssa"
)

const (
	tRunnable = iota
	tBlocked
	tDone
)

type gthread struct {
	id       int
	resume   chan struct{}
	exited   chan struct{}
	state    int
	yielding bool
	waitDesc string
	depth    int
	stack    []*ssa.Function
	vc       *vclock
}

type killThread struct{}

// childCrash carries an uncaught panic of a non-main goroutine into the main thread (not recoverable by the target).
type childCrash struct{ r interface{} }

type deadlockErr struct{ desc string }

func (i *interpreter) curThread() *gthread {
	if i.cur == nil {
		main := &gthread{id: 0, resume: make(chan struct{}, 1)}
		i.threads = []*gthread{main}
		i.cur = main
	}
	return i.cur
}

func (i *interpreter) multiThreaded() bool { return len(i.threads) > 1 }

// pick returns the next thread to run (nil: none runnable).
func (i *interpreter) pick(exclude *gthread) *gthread {
	var y *gthread
	for _, t := range i.threads {
		if t.state != tRunnable || t == exclude {
			continue
		}
		if !t.yielding {
			return t
		}
		if y == nil {
			y = t
		}
	}
	return y
}

// switchTo hands the baton to next and, unless the current thread is done, waits until it is scheduled again.
func (i *interpreter) switchTo(next *gthread) {
	t := i.cur
	if next == t {
		return
	}
	t.depth, t.stack = i.depth, i.stack
	i.cur = next
	i.depth, i.stack = next.depth, next.stack
	next.resume <- struct{}{}
	if t.state == tDone {
		return
	}
	<-t.resume
	i.afterResume(t)
}

func (i *interpreter) afterResume(t *gthread) {
	if i.killing {
		panic(killThread{})
	}
	if t.id == 0 && i.pendingCrash != nil {
		r := i.pendingCrash
		i.pendingCrash = nil
		panic(r)
	}
}

// park blocks the current thread until another thread makes it runnable again.
func (i *interpreter) park(desc string) {
	t := i.curThread()
	t.state = tBlocked
	t.waitDesc = desc
	next := i.pick(nil)
	if next == nil {
		i.deadlock()
		return
	}
	i.switchTo(next)
}

func (i *interpreter) deadlock() {
	desc := "all goroutines are asleep - deadlock!"
	for _, t := range i.threads {
		if t.state == tBlocked {
			desc += fmt.Sprintf(" [goroutine %d: %s]", t.id, t.waitDesc)
		}
	}
	main := i.threads[0]
	if i.cur == main {
		main.state = tRunnable
		panic(deadlockErr{desc})
	}
	i.pendingCrash = deadlockErr{desc}
	main.state = tRunnable
	i.switchTo(main)
}

// yield lets every other runnable thread run until it blocks or finishes.
func (i *interpreter) yield() {
	t := i.curThread()
	if !i.multiThreaded() {
		return
	}
	t.yielding = true
	for {
		n := i.pick(t)
		if n == nil || n.yielding {
			break
		}
		i.switchTo(n)
	}
	t.yielding = false
}

func (i *interpreter) wake(t *gthread) {
	if t.state == tBlocked {
		t.state = tRunnable
	}
}

// spawn starts a new target goroutine running fn(args); the caller keeps the baton.
func (i *interpreter) spawn(fn value, args []value, pos ssa.Instruction) {
	i.curThread()
	// bound: 16 goroutines in total while the race detector is on (vector-clock width), else 64 live ones (finished
	// goroutines - e.g. the producer goroutine of every closed iavl iterator - do not count)
	if i.raceID != "" {
		if len(i.threads) >= 16 {
			unsup("more than 16 goroutines")
		}
	} else {
		live := 0
		for _, t := range i.threads {
			if t.state != tDone {
				live++
			}
		}
		if live >= 64 || len(i.threads) >= 100000 {
			unsup("more than 64 live goroutines")
		}
	}
	t := &gthread{id: len(i.threads), resume: make(chan struct{}, 1), exited: make(chan struct{})}
	i.threads = append(i.threads, t)
	if i.raceID != "" {
		pv := i.vc()
		cv := *pv
		t.vc = &cv
		t.vc[t.id] = 1
		pv[i.cur.id]++
	}
	i.m.Stubs["goroutines: deterministic cooperative scheduler (run-until-block, lowest id first)"]++
	go func() {
		defer close(t.exited)
		<-t.resume
		if i.killing {
			return
		}
		func() {
			defer func() {
				r := recover()
				switch r.(type) {
				case nil:
				case killThread:
					t.state = tDone
					return
				default:
					if i.pendingCrash == nil {
						if tp, ok := r.(targetPanic); ok {
							r = childCrash{tp}
						} else if re, ok := r.(runtimeErr); ok {
							r = childCrash{re}
						}
						i.pendingCrash = r
					}
				}
			}()
			call(i, nil, pos.Pos(), fn, args)
		}()
		if t.state == tDone { // killed
			return
		}
		t.state = tDone
		if i.pendingCrash != nil {
			main := i.threads[0]
			main.state = tRunnable
			i.switchTo(main)
			return
		}
		next := i.pick(nil)
		if next == nil {
			i.deadlock()
			return
		}
		i.switchTo(next)
	}()
}

// killThreads ends every goroutine still alive at the end of a path.
func (i *interpreter) killThreads() {
	if len(i.threads) <= 1 {
		return
	}
	i.killing = true
	for _, t := range i.threads[1:] {
		if t.state == tDone {
			<-t.exited
			continue
		}
		t.resume <- struct{}{}
		<-t.exited
	}
}

// ---------- channels ----------

type vchan struct {
	cap    int
	bufVC  []*vclock
	closeVC *vclock
	buf    []value
	closed bool
	recvq  []*chanWaiter
	sendq  []*chanWaiter
}

type chanWaiter struct {
	t      *gthread
	vc     *vclock // clock published by a blocked sender / handed to a blocked receiver
	val    value
	ok     bool
	sel    *selWait
	idx    int
	closed bool // a blocked sender woken by close
	wakeVC *vclock
}

type selWait struct {
	fired  bool
	chosen int
	val    value
	ok     bool
}

func (w *chanWaiter) live() bool { return w.sel == nil || !w.sel.fired }

func popLive(q *[]*chanWaiter) *chanWaiter {
	for len(*q) > 0 {
		w := (*q)[0]
		*q = (*q)[1:]
		if w.live() {
			return w
		}
	}
	return nil
}

func (i *interpreter) fire(w *chanWaiter, v value, ok bool) {
	if i.raceID != "" {
		// the woken party learns the clock of the party that completes the operation (send->recv, recv->send
		// completion on a rendezvous, close->recv)
		c := *i.vc()
		w.wakeVC = &c
		i.vc()[i.cur.id]++
	}
	if w.sel != nil {
		w.sel.fired = true
		w.sel.chosen = w.idx
		w.sel.val, w.sel.ok = v, ok
	} else {
		w.val, w.ok = v, ok
	}
	i.wake(w.t)
}

// trySend returns true if v was delivered or buffered.
func (i *interpreter) trySend(c *vchan, v value) bool {
	if c.closed {
		panic(runtimeErr("send on closed channel"))
	}
	if w := popLive(&c.recvq); w != nil {
		i.fire(w, v, true)
		return true
	}
	if len(c.buf) < c.cap {
		c.buf = append(c.buf, v)
		if i.raceID != "" {
			cv := vclock{}
			i.release(&cv)
			c.bufVC = append(c.bufVC, &cv)
		}
		return true
	}
	return false
}

func (i *interpreter) tryRecv(c *vchan) (v value, ok, done bool) {
	if len(c.buf) > 0 {
		v = c.buf[0]
		c.buf = c.buf[1:]
		if i.raceID != "" && len(c.bufVC) > 0 {
			i.acquire(c.bufVC[0])
			c.bufVC = c.bufVC[1:]
		}
		if w := popLive(&c.sendq); w != nil {
			c.buf = append(c.buf, w.val)
			if i.raceID != "" {
				c.bufVC = append(c.bufVC, w.vc)
			}
			i.fire(w, nil, true)
		}
		return v, true, true
	}
	if w := popLive(&c.sendq); w != nil {
		v = w.val
		i.acquire(w.vc)
		i.fire(w, nil, true)
		return v, true, true
	}
	if c.closed {
		i.acquire(c.closeVC)
		return nil, false, true
	}
	return nil, false, false
}

func (i *interpreter) chanSend(c *vchan, v value) {
	if c == nil {
		i.park("send on nil channel")
		return
	}
	if i.trySend(c, v) {
		return
	}
	w := &chanWaiter{t: i.curThread(), val: v}
	if i.raceID != "" {
		cv := vclock{}
		i.release(&cv)
		w.vc = &cv
	}
	c.sendq = append(c.sendq, w)
	i.park("chan send")
	i.acquire(w.wakeVC)
	if w.closed {
		panic(runtimeErr("send on closed channel"))
	}
}

func (i *interpreter) chanRecv(c *vchan) (value, bool) {
	if c == nil {
		i.park("receive from nil channel")
		return nil, false
	}
	if v, ok, done := i.tryRecv(c); done {
		return v, ok
	}
	w := &chanWaiter{t: i.curThread()}
	c.recvq = append(c.recvq, w)
	i.park("chan receive")
	i.acquire(w.wakeVC)
	return w.val, w.ok
}

func (i *interpreter) chanClose(c *vchan) {
	if c == nil {
		panic(runtimeErr("close of nil channel"))
	}
	if c.closed {
		panic(runtimeErr("close of closed channel"))
	}
	c.closed = true
	if i.raceID != "" {
		cv := vclock{}
		i.release(&cv)
		c.closeVC = &cv
	}
	for {
		w := popLive(&c.recvq)
		if w == nil {
			break
		}
		i.fire(w, nil, false)
	}
	for {
		w := popLive(&c.sendq)
		if w == nil {
			break
		}
		w.closed = true
		if w.sel != nil {
			w.sel.fired = true
			w.sel.chosen = w.idx
			w.sel.ok = false
			w.sel.val = runtimeErr("send on closed channel")
		}
		i.wake(w.t)
	}
}

type selCase struct {
	send bool
	c    *vchan
	v    value
}

// chanSelect returns (chosen index or -1 for default, received value, received ok).
func (i *interpreter) chanSelect(cases []selCase, blocking bool) (int, value, bool) {
	for k, sc := range cases {
		if sc.c == nil {
			continue
		}
		if sc.send {
			if i.trySend(sc.c, sc.v) {
				return k, nil, false
			}
		} else if v, ok, done := i.tryRecv(sc.c); done {
			return k, v, ok
		}
	}
	if !blocking {
		return -1, nil, false
	}
	sw := &selWait{chosen: -1}
	var waiters []*chanWaiter
	for k, sc := range cases {
		if sc.c == nil {
			continue
		}
		w := &chanWaiter{t: i.curThread(), sel: sw, idx: k, val: sc.v}
		waiters = append(waiters, w)
		if sc.send && i.raceID != "" {
			cv := *i.vc()
			w.vc = &cv
		}
		if sc.send {
			sc.c.sendq = append(sc.c.sendq, w)
		} else {
			sc.c.recvq = append(sc.c.recvq, w)
		}
	}
	i.park("select")
	for _, w := range waiters {
		if w.idx == sw.chosen {
			i.acquire(w.wakeVC)
		}
	}
	if i.raceID != "" {
		i.vc()[i.cur.id]++
	}
	if re, ok := sw.val.(runtimeErr); ok && cases[sw.chosen].send {
		panic(re)
	}
	return sw.chosen, sw.val, sw.ok
}

// ---------- mutexes, wait groups ----------

type mutexState struct {
	vc      vclock // published by Unlock; learnt by Lock and RLock
	rvc     vclock // published by RUnlock; learnt by Lock only (readers are not ordered among themselves)
	locked  bool
	readers int
	waiters []*gthread
}

func (i *interpreter) mutex(p value) *mutexState {
	ptr, ok := p.(*value)
	if !ok || ptr == nil {
		panic(runtimeErr("invalid memory address or nil pointer dereference"))
	}
	if i.mutexes == nil {
		i.mutexes = map[*value]*mutexState{}
	}
	m := i.mutexes[ptr]
	if m == nil {
		m = &mutexState{}
		i.mutexes[ptr] = m
	}
	return m
}

func (i *interpreter) wakeAll(m *mutexState) {
	for _, t := range m.waiters {
		i.wake(t)
	}
	m.waiters = nil
}

func (i *interpreter) mutexLock(p value, read bool) {
	m := i.mutex(p)
	for {
		if read && !m.locked {
			m.readers++
			if i.raceID != "" {
				i.acquire(&m.vc)
			}
			return
		}
		if !read && !m.locked && m.readers == 0 {
			m.locked = true
			if i.raceID != "" {
				i.acquire(&m.vc)
				i.acquire(&m.rvc)
			}
			return
		}
		m.waiters = append(m.waiters, i.curThread())
		i.park("sync.Mutex.Lock")
	}
}

func (i *interpreter) mutexUnlock(p value, read bool) {
	m := i.mutex(p)
	if read {
		if m.readers == 0 {
			panic(runtimeErr("sync: RUnlock of unlocked RWMutex"))
		}
		m.readers--
	} else {
		if !m.locked {
			panic(runtimeErr("sync: unlock of unlocked mutex"))
		}
		m.locked = false
	}
	if i.raceID != "" {
		if read {
			i.release(&m.rvc)
		} else {
			i.release(&m.vc)
		}
	}
	i.wakeAll(m)
}

type wgState struct {
	vc      vclock
	n       int
	waiters []*gthread
}

func (i *interpreter) waitGroup(p value) *wgState {
	ptr := p.(*value)
	if i.wgs == nil {
		i.wgs = map[*value]*wgState{}
	}
	w := i.wgs[ptr]
	if w == nil {
		w = &wgState{}
		i.wgs[ptr] = w
	}
	return w
}

func init() {
	for k, v := range map[string]externalFn{
		"(*sync.Mutex).Lock":      func(fr *frame, a []value) value { fr.i.mutexLock(a[0], false); return nil },
		"(*sync.Mutex).Unlock":    func(fr *frame, a []value) value { fr.i.mutexUnlock(a[0], false); return nil },
		"(*sync.RWMutex).Lock":    func(fr *frame, a []value) value { fr.i.mutexLock(a[0], false); return nil },
		"(*sync.RWMutex).Unlock":  func(fr *frame, a []value) value { fr.i.mutexUnlock(a[0], false); return nil },
		"(*sync.RWMutex).RLock":   func(fr *frame, a []value) value { fr.i.mutexLock(a[0], true); return nil },
		"(*sync.RWMutex).RUnlock": func(fr *frame, a []value) value { fr.i.mutexUnlock(a[0], true); return nil },
		"(*sync.WaitGroup).Add": func(fr *frame, a []value) value {
			w := fr.i.waitGroup(a[0])
			w.n += int(asInt64(a[1]))
			if fr.i.raceID != "" && asInt64(a[1]) < 0 {
				fr.i.release(&w.vc)
			}
			if w.n < 0 {
				panic(runtimeErr("sync: negative WaitGroup counter"))
			}
			if w.n == 0 {
				for _, t := range w.waiters {
					fr.i.wake(t)
				}
				w.waiters = nil
			}
			return nil
		},
		"(*sync.WaitGroup).Done": func(fr *frame, a []value) value {
			return externals["(*sync.WaitGroup).Add"](fr, []value{a[0], -1})
		},
		"(*sync.WaitGroup).Wait": func(fr *frame, a []value) value {
			w := fr.i.waitGroup(a[0])
			for w.n > 0 {
				w.waiters = append(w.waiters, fr.i.curThread())
				fr.i.park("sync.WaitGroup.Wait")
			}
			if fr.i.raceID != "" {
				fr.i.acquire(&w.vc)
			}
			return nil
		},
		"runtime.Gosched": func(fr *frame, a []value) value { fr.i.yield(); return nil },
		"time.Sleep":      func(fr *frame, a []value) value { fr.i.yield(); return nil },
	} {
		externals[k] = v
	}
}
