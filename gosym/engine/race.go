package engine

// Happens-before data-race detection (vector clocks), opt-in per harness with zz.RaceDetect("<assert id>").
//
// Locations: every heap cell reached through a pointer load/store (*ssa.UnOp MUL, *ssa.Store) and every Go map as a
// whole (lookup/range/len = read, update/delete = write).  Happens-before edges: go statement, mutex unlock -> lock
// (RWMutex likewise), channel send -> receive (and receive -> send completion on unbuffered channels), close ->
// receive-of-closed, WaitGroup.Done -> Wait.  sync/atomic and sync.Once are not modelled: a harness that enables the
// detector must synchronise with the primitives above only.  A conflicting pair of accesses (at least one write) from
// two threads that is not ordered by happens-before is reported - whatever interleaving actually ran, as Go's own race
// detector does; the native replay runs the harness under `go test -race`.

import "fmt"

const maxThreads = 16

type vclock [maxThreads]int

func (a *vclock) join(b *vclock) {
	for k := range a {
		if b[k] > a[k] {
			a[k] = b[k]
		}
	}
}

type shadowCell struct {
	wT, wC int
	wDesc  string
	reads  vclock
}

type raceFound struct {
	id   string
	desc string
}

func (i *interpreter) vc() *vclock {
	t := i.curThread()
	if t.vc == nil {
		t.vc = &vclock{}
		t.vc[t.id] = 1
	}
	return t.vc
}

// release: the current thread publishes its clock into dst and advances.
func (i *interpreter) release(dst *vclock) {
	v := i.vc()
	dst.join(v)
	v[i.cur.id]++
}

func (i *interpreter) acquire(src *vclock) {
	if src != nil {
		i.vc().join(src)
	}
}

func (i *interpreter) access(loc interface{}, write bool, what string) {
	if i.raceID == "" || len(i.threads) <= 1 {
		return
	}
	if i.shadow == nil {
		i.shadow = map[interface{}]*shadowCell{}
	}
	t := i.curThread()
	v := i.vc()
	sc := i.shadow[loc]
	if sc == nil {
		sc = &shadowCell{wT: -1}
		i.shadow[loc] = sc
	}
	where := ""
	if len(i.stack) > 0 {
		where = i.stack[len(i.stack)-1].String()
	}
	if sc.wT >= 0 && sc.wT != t.id && sc.wC > v[sc.wT] {
		panic(raceFound{i.raceID, fmt.Sprintf("data race: %s of %s in %s (goroutine %d) not ordered after write in %s (goroutine %d)", rw(write), what, where, t.id, sc.wDesc, sc.wT)})
	}
	if write {
		for u := range sc.reads {
			if u != t.id && sc.reads[u] > v[u] {
				panic(raceFound{i.raceID, fmt.Sprintf("data race: write of %s in %s (goroutine %d) not ordered after a read by goroutine %d", what, where, t.id, u)})
			}
		}
		sc.wT, sc.wC, sc.wDesc = t.id, v[t.id], where
		sc.reads = vclock{}
	} else {
		sc.reads[t.id] = v[t.id]
	}
}

func rw(w bool) string {
	if w {
		return "write"
	}
	return "read"
}
