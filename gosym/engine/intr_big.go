package engine

// Exact model of math/big.Int over SMT Int terms.

import (
	"fmt"
	"go/types"
	"math/big"

	"gosym/smt"
)

func derefBig(p value) structure {
	ptr, ok := p.(*value)
	if !ok {
		panic(fmt.Sprintf("big.Int receiver is %T", p))
	}
	if ptr == nil {
		panic(runtimeErr("invalid memory address or nil pointer dereference"))
	}
	return (*ptr).(structure)
}

func getBig(p value) bigv {
	st := derefBig(p)
	if b, ok := st[1].(bigv); ok {
		return b
	}
	return bigv{c: new(big.Int)}
}

func setBig(p value, b bigv) value {
	st := derefBig(p)
	if b.t != nil && b.t.IsConst() {
		b = bigv{c: new(big.Int).Set(b.t.Val)}
	}
	st[0] = false
	st[1] = b
	return p
}

func newBig(b bigv) value {
	if b.t != nil && b.t.IsConst() {
		b = bigv{c: new(big.Int).Set(b.t.Val)}
	}
	v := value(structure{false, b})
	return &v
}

func (i *interpreter) bt(b bigv) *smt.Term {
	if b.t != nil {
		return b.t
	}
	return i.m.C.Const(b.c)
}

var stringType = types.Typ[types.String]

func panicStr(s string) {
	panic(targetPanic{iface{t: stringType, v: s}})
}

// bigBin applies op to (x,y) storing into z.
func (i *interpreter) bigBin(z, x, y value, conc func(z, x, y *big.Int) *big.Int, sym func(x, y *smt.Term) *smt.Term) value {
	bx, by := getBig(x), getBig(y)
	if bx.c != nil && by.c != nil {
		return setBig(z, bigv{c: conc(new(big.Int), bx.c, by.c)})
	}
	return setBig(z, bigv{t: sym(i.bt(bx), i.bt(by))})
}

func (i *interpreter) bigDivGuard(y value) {
	by := getBig(y)
	if by.c != nil {
		if by.c.Sign() == 0 {
			panicStr("division by zero")
		}
		return
	}
	if i.decide(i.m.C.Eq(by.t, i.m.C.ConstI(0))) {
		panicStr("division by zero")
	}
}

func (i *interpreter) bigPlaceholder(b bigv) string {
	if b.c != nil {
		return b.c.String()
	}
	return fmt.Sprintf("<int:t%d>", b.t.ID)
}

func init() {
	const B = "(*math/big.Int)."
	ext := map[string]externalFn{
		"math/big.NewInt": func(fr *frame, a []value) value {
			if s, ok := a[0].(symInt); ok {
				return newBig(bigv{t: s.t})
			}
			return newBig(bigv{c: big.NewInt(a[0].(int64))})
		},
		B + "Set": func(fr *frame, a []value) value { return setBig(a[0], getBig(a[1])) },
		B + "SetInt64": func(fr *frame, a []value) value {
			if s, ok := a[1].(symInt); ok {
				return setBig(a[0], bigv{t: s.t})
			}
			return setBig(a[0], bigv{c: big.NewInt(a[1].(int64))})
		},
		B + "SetUint64": func(fr *frame, a []value) value {
			if s, ok := a[1].(symInt); ok {
				return setBig(a[0], bigv{t: s.t})
			}
			return setBig(a[0], bigv{c: new(big.Int).SetUint64(a[1].(uint64))})
		},
		B + "SetString": func(fr *frame, a []value) value {
			s, ok := a[1].(string)
			if !ok {
				if fr.i.m.BigText {
					r, ok := fr.i.parseBigCells(strCells(a[1]), int(asInt64(a[2])))
					if !ok {
						return tuple{(*value)(nil), false}
					}
					return tuple{setBig(a[0], r), true}
				}
				unsup("big.Int.SetString of symbolic string")
			}
			if len(s) > 0 && s[0] == '<' {
				unsup("big.Int.SetString of a placeholder produced by String() of a symbolic integer")
			}
			r, ok := new(big.Int).SetString(s, int(asInt64(a[2])))
			if !ok {
				return tuple{(*value)(nil), false}
			}
			return tuple{setBig(a[0], bigv{c: r}), true}
		},
		B + "SetBytes": func(fr *frame, a []value) value {
			bs := a[1].([]value)
			raw := make([]byte, len(bs))
			for j, c := range bs {
				b, ok := c.(uint8)
				if !ok {
					unsup("big.Int.SetBytes of symbolic bytes")
				}
				raw[j] = b
			}
			return setBig(a[0], bigv{c: new(big.Int).SetBytes(raw)})
		},
		B + "Bytes": func(fr *frame, a []value) value {
			b := getBig(a[0])
			if b.c == nil {
				unsup("big.Int.Bytes of symbolic integer")
			}
			raw := b.c.Bytes()
			out := make([]value, len(raw))
			for j, c := range raw {
				out[j] = c
			}
			return out
		},
		B + "Add": func(fr *frame, a []value) value {
			return fr.i.bigBin(a[0], a[1], a[2], (*big.Int).Add, func(x, y *smt.Term) *smt.Term { return fr.i.m.C.Add(x, y) })
		},
		B + "Sub": func(fr *frame, a []value) value {
			return fr.i.bigBin(a[0], a[1], a[2], (*big.Int).Sub, fr.i.m.C.Sub)
		},
		B + "Mul": func(fr *frame, a []value) value {
			return fr.i.bigBin(a[0], a[1], a[2], (*big.Int).Mul, fr.i.m.C.Mul)
		},
		B + "Quo": func(fr *frame, a []value) value {
			fr.i.bigDivGuard(a[2])
			return fr.i.bigBin(a[0], a[1], a[2], (*big.Int).Quo, fr.i.m.C.TruncDiv)
		},
		B + "Rem": func(fr *frame, a []value) value {
			fr.i.bigDivGuard(a[2])
			return fr.i.bigBin(a[0], a[1], a[2], (*big.Int).Rem, fr.i.m.C.TruncRem)
		},
		B + "Div": func(fr *frame, a []value) value {
			fr.i.bigDivGuard(a[2])
			return fr.i.bigBin(a[0], a[1], a[2], (*big.Int).Div, fr.i.m.C.Div)
		},
		B + "Mod": func(fr *frame, a []value) value {
			fr.i.bigDivGuard(a[2])
			return fr.i.bigBin(a[0], a[1], a[2], (*big.Int).Mod, fr.i.m.C.Mod)
		},
		B + "QuoRem": func(fr *frame, a []value) value {
			// (z *Int) QuoRem(x, y, r *Int) (*Int, *Int)
			fr.i.bigDivGuard(a[2])
			bx, by := getBig(a[1]), getBig(a[2])
			C := fr.i.m.C
			if bx.c != nil && by.c != nil {
				q, r := new(big.Int).QuoRem(bx.c, by.c, new(big.Int))
				setBig(a[0], bigv{c: q})
				setBig(a[3], bigv{c: r})
			} else {
				q := C.TruncDiv(fr.i.bt(bx), fr.i.bt(by))
				r := C.TruncRem(fr.i.bt(bx), fr.i.bt(by))
				setBig(a[0], bigv{t: q})
				setBig(a[3], bigv{t: r})
			}
			return tuple{a[0], a[3]}
		},
		B + "Neg": func(fr *frame, a []value) value {
			b := getBig(a[1])
			if b.c != nil {
				return setBig(a[0], bigv{c: new(big.Int).Neg(b.c)})
			}
			return setBig(a[0], bigv{t: fr.i.m.C.Neg(b.t)})
		},
		B + "Abs": func(fr *frame, a []value) value {
			b := getBig(a[1])
			if b.c != nil {
				return setBig(a[0], bigv{c: new(big.Int).Abs(b.c)})
			}
			return setBig(a[0], bigv{t: fr.i.m.C.Abs(b.t)})
		},
		B + "Exp": func(fr *frame, a []value) value {
			x, y := getBig(a[1]), getBig(a[2])
			var mm *big.Int
			if p, ok := a[3].(*value); ok && p != nil {
				m := getBig(a[3])
				if m.c == nil {
					unsup("big.Int.Exp with symbolic modulus")
				}
				mm = m.c
			}
			if x.c == nil || y.c == nil {
				unsup("big.Int.Exp with symbolic operands")
			}
			return setBig(a[0], bigv{c: new(big.Int).Exp(x.c, y.c, mm)})
		},
		B + "Sqrt": func(fr *frame, a []value) value {
			x := getBig(a[1])
			if x.c == nil {
				unsup("big.Int.Sqrt symbolic")
			}
			return setBig(a[0], bigv{c: new(big.Int).Sqrt(x.c)})
		},
		B + "Bit": func(fr *frame, a []value) value {
			x := getBig(a[0])
			n := int(fr.i.idx(a[1]))
			if x.c != nil {
				return x.c.Bit(n)
			}
			C := fr.i.m.C
			return fr.i.wrapK(C.Mod(C.Div(x.t, C.Const(pow2(n))), C.ConstI(2)), types.Uint)
		},
		B + "Lsh": func(fr *frame, a []value) value {
			x := getBig(a[1])
			n := uint(fr.i.idx(a[2]))
			if x.c != nil {
				return setBig(a[0], bigv{c: new(big.Int).Lsh(x.c, n)})
			}
			return setBig(a[0], bigv{t: fr.i.m.C.Mul(x.t, fr.i.m.C.Const(pow2(int(n))))})
		},
		B + "Rsh": func(fr *frame, a []value) value {
			x := getBig(a[1])
			n := uint(fr.i.idx(a[2]))
			if x.c != nil {
				return setBig(a[0], bigv{c: new(big.Int).Rsh(x.c, n)})
			}
			return setBig(a[0], bigv{t: fr.i.m.C.Div(x.t, fr.i.m.C.Const(pow2(int(n))))})
		},
		B + "And": func(fr *frame, a []value) value {
			x, y := getBig(a[1]), getBig(a[2])
			if x.c == nil || y.c == nil {
				unsup("big.Int.And symbolic")
			}
			return setBig(a[0], bigv{c: new(big.Int).And(x.c, y.c)})
		},
		B + "Or": func(fr *frame, a []value) value {
			x, y := getBig(a[1]), getBig(a[2])
			if x.c == nil || y.c == nil {
				unsup("big.Int.Or symbolic")
			}
			return setBig(a[0], bigv{c: new(big.Int).Or(x.c, y.c)})
		},
		B + "Cmp": func(fr *frame, a []value) value {
			x, y := getBig(a[0]), getBig(a[1])
			if x.c != nil && y.c != nil {
				return x.c.Cmp(y.c)
			}
			C := fr.i.m.C
			xt, yt := fr.i.bt(x), fr.i.bt(y)
			t := C.Ite(C.Lt(xt, yt), C.ConstI(-1), C.Ite(C.Eq(xt, yt), C.ConstI(0), C.ConstI(1)))
			return fr.i.wrapK(t, types.Int)
		},
		B + "CmpAbs": func(fr *frame, a []value) value {
			x, y := getBig(a[0]), getBig(a[1])
			if x.c != nil && y.c != nil {
				return x.c.CmpAbs(y.c)
			}
			C := fr.i.m.C
			xt, yt := C.Abs(fr.i.bt(x)), C.Abs(fr.i.bt(y))
			t := C.Ite(C.Lt(xt, yt), C.ConstI(-1), C.Ite(C.Eq(xt, yt), C.ConstI(0), C.ConstI(1)))
			return fr.i.wrapK(t, types.Int)
		},
		B + "Sign": func(fr *frame, a []value) value {
			x := getBig(a[0])
			if x.c != nil {
				return x.c.Sign()
			}
			C := fr.i.m.C
			z := C.ConstI(0)
			t := C.Ite(C.Lt(x.t, z), C.ConstI(-1), C.Ite(C.Eq(x.t, z), C.ConstI(0), C.ConstI(1)))
			return fr.i.wrapK(t, types.Int)
		},
		B + "BitLen": func(fr *frame, a []value) value {
			x := getBig(a[0])
			if x.c != nil {
				return x.c.BitLen()
			}
			t := fr.i.m.C.BitLen(x.t)
			if t.IsConst() {
				return int(t.Val.Int64())
			}
			return symInt{t, types.Int}
		},
		B + "IsInt64": func(fr *frame, a []value) value {
			x := getBig(a[0])
			if x.c != nil {
				return x.c.IsInt64()
			}
			C := fr.i.m.C
			lo, hi, _ := kindRange(types.Int64)
			return fr.i.boolv(C.And(C.Le(C.Const(lo), x.t), C.Le(x.t, C.Const(hi))))
		},
		B + "IsUint64": func(fr *frame, a []value) value {
			x := getBig(a[0])
			if x.c != nil {
				return x.c.IsUint64()
			}
			C := fr.i.m.C
			lo, hi, _ := kindRange(types.Uint64)
			return fr.i.boolv(C.And(C.Le(C.Const(lo), x.t), C.Le(x.t, C.Const(hi))))
		},
		B + "Int64": func(fr *frame, a []value) value {
			x := getBig(a[0])
			if x.c != nil {
				return x.c.Int64()
			}
			C := fr.i.m.C
			low := C.Mod(C.Abs(x.t), C.Const(pow2(64)))
			t := C.Ite(C.Lt(x.t, C.ConstI(0)), C.Neg(low), low)
			return fr.i.wrapK(t, types.Int64)
		},
		B + "Uint64": func(fr *frame, a []value) value {
			x := getBig(a[0])
			if x.c != nil {
				return x.c.Uint64()
			}
			C := fr.i.m.C
			return fr.i.wrapK(C.Mod(C.Abs(x.t), C.Const(pow2(64))), types.Uint64)
		},
		B + "String": func(fr *frame, a []value) value {
			if p, ok := a[0].(*value); ok && p == nil {
				return "<nil>"
			}
			if fr.i.m.BigText {
				return mkStr(fr.i.bigDigits(getBig(a[0])))
			}
			return fr.i.bigPlaceholder(getBig(a[0]))
		},
		B + "Text": func(fr *frame, a []value) value {
			b := getBig(a[0])
			if b.c != nil {
				return b.c.Text(int(asInt64(a[1])))
			}
			if fr.i.m.BigText && asInt64(a[1]) == 10 {
				return mkStr(fr.i.bigDigits(b))
			}
			return fr.i.bigPlaceholder(b)
		},
		B + "MarshalText": func(fr *frame, a []value) value {
			if fr.i.m.BigText {
				return tuple{append([]value{}, fr.i.bigDigits(getBig(a[0]))...), iface{}}
			}
			s := fr.i.bigPlaceholder(getBig(a[0]))
			out := make([]value, len(s))
			for j := 0; j < len(s); j++ {
				out[j] = s[j]
			}
			return tuple{out, iface{}}
		},
		B + "UnmarshalText": func(fr *frame, a []value) value {
			bs := a[1].([]value)
			if fr.i.m.BigText {
				r, ok := fr.i.parseBigCells(bs, 0)
				if !ok {
					return fr.i.mkError("math/big: cannot unmarshal text into a *big.Int")
				}
				setBig(a[0], r)
				return iface{}
			}
			raw := make([]byte, len(bs))
			for j, c := range bs {
				b, ok := c.(uint8)
				if !ok {
					unsup("big.Int.UnmarshalText of symbolic bytes")
				}
				raw[j] = b
			}
			if len(raw) > 0 && raw[0] == '<' {
				unsup("big.Int.UnmarshalText of a placeholder")
			}
			r := new(big.Int)
			if err := r.UnmarshalText(raw); err != nil {
				return fr.i.mkError(err.Error())
			}
			setBig(a[0], bigv{c: r})
			return iface{}
		},
	}
	for k, v := range ext {
		externals[k] = v
	}
}
