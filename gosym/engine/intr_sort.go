package engine

// sort.* as insertion sort over interpreter values (comparisons may be symbolic and fork).

import (
	"go/token"
)

func insertionSort(n int, less func(a, b int) bool, swap func(a, b int)) {
	for a := 1; a < n; a++ {
		for b := a; b > 0 && less(b, b-1); b-- {
			swap(b, b-1)
		}
	}
}

func init() {
	delete(externals, "sort.Ints")
	delete(externals, "sort.Float64s")
	externals["sort.Strings"] = func(fr *frame, a []value) value {
		x := a[0].([]value)
		insertionSort(len(x),
			func(p, q int) bool { return fr.i.condBool(fr.i.strBinop(token.LSS, x[p], x[q])) },
			func(p, q int) { x[p], x[q] = x[q], x[p] })
		return nil
	}
	sliceSort := func(fr *frame, a []value) value {
		it := a[0].(iface)
		x, ok := it.v.([]value)
		if !ok {
			unsup("sort.Slice of %T", it.v)
		}
		lessFn := a[1]
		if len(x) > 64 {
			unsup("sort.Slice of %d elements", len(x))
		}
		insertionSort(len(x),
			func(p, q int) bool {
				return fr.i.condBool(call(fr.i, fr, token.NoPos, lessFn, []value{p, q}))
			},
			func(p, q int) { x[p], x[q] = x[q], x[p] })
		return nil
	}
	externals["sort.Slice"] = sliceSort
	externals["sort.SliceStable"] = sliceSort
}
