package engine

// Exact decimal text of a symbolic math/big.Int (opt-in per harness: zz.ExactBigText(true)).
//
// MarshalText/String/Text(10) of a symbolic integer x forks over sign and digit count n (10^(n-1) <= |x| < 10^n,
// n <= bigTextMaxDigits) and yields n symbolic digit cells '0' + (|x| div 10^i) mod 10, most significant first.
// SetString/UnmarshalText over cells: a run of cells that is exactly the n digits of one |x| (after optional
// leading '0' cells) evaluates to |x| by the positional-notation identity sum_i digit_i(x)*10^i = x
// (0 <= x < 10^n); any other symbolic cells are parsed cell by cell (each forks digit / not-a-digit).

import (
	"go/types"
	"math/big"

	"gosym/smt"
)

const bigTextMaxDigits = 100

// digitInfo records one produced digit sequence: cells are the n digits (most significant first) of x >= 0.
type digitInfo struct {
	x     *smt.Term
	cells []value
}

func pow10(n int) *big.Int { return new(big.Int).Exp(big.NewInt(10), big.NewInt(int64(n)), nil) }

// bigDigits returns the decimal text cells of b (exact mode).
func (i *interpreter) bigDigits(b bigv) []value {
	if b.c != nil {
		return strCells(b.c.String())
	}
	C := i.m.C
	t := b.t
	neg := i.decide(C.Lt(t, C.ConstI(0)))
	abs := t
	if neg {
		abs = C.Neg(t)
	}
	n := 1 + i.decideN(bigTextMaxDigits+1, func(k int) *smt.Term {
		switch {
		case k == 0:
			return C.Lt(abs, C.Const(pow10(1)))
		case k == bigTextMaxDigits:
			return C.Le(C.Const(pow10(bigTextMaxDigits)), abs)
		}
		return C.And(C.Le(C.Const(pow10(k)), abs), C.Lt(abs, C.Const(pow10(k+1))))
	})
	if n > bigTextMaxDigits {
		unsup("decimal text of an integer with more than %d digits", bigTextMaxDigits)
	}
	i.m.Stubs["big.Int decimal text: digit cells (|x| div 10^i) mod 10 per digit count"]++
	var out []value
	if neg {
		out = append(out, uint8('-'))
	}
	var digits []value
	for j := n - 1; j >= 0; j-- {
		d := C.Mod(C.Div(abs, C.Const(pow10(j))), C.ConstI(10))
		c := C.Add(C.ConstI('0'), d)
		if c.IsConst() {
			digits = append(digits, uint8(c.Val.Int64()))
			continue
		}
		digits = append(digits, symInt{t: c, k: types.Uint8})
	}
	i.m.digitSeqs = append(i.m.digitSeqs, digitInfo{x: abs, cells: digits})
	out = append(out, digits...)
	return out
}

// parseBigCells parses decimal text cells in the given base (0 or 10) the way (*big.Int).SetString does.
// ok=false: not a number.
func (i *interpreter) parseBigCells(cells []value, base int) (res bigv, ok bool) {
	C := i.m.C
	conc := true
	for _, c := range cells {
		if _, isb := c.(uint8); !isb {
			conc = false
		}
	}
	if conc {
		raw := make([]byte, len(cells))
		for j, c := range cells {
			raw[j] = c.(uint8)
		}
		if len(raw) > 0 && raw[0] == '<' {
			unsup("big.Int.SetString of a placeholder produced by String() of a symbolic integer")
		}
		r, ok := new(big.Int).SetString(string(raw), base)
		if !ok {
			return bigv{}, false
		}
		return bigv{c: r}, true
	}
	if base != 0 && base != 10 {
		unsup("big.Int.SetString of symbolic text in base %d", base)
	}
	isByte := func(c value, b byte) bool {
		switch c := c.(type) {
		case uint8:
			return c == b
		case symInt:
			return i.decide(C.Eq(c.t, C.ConstI(int64(b))))
		}
		unsup("big.Int.SetString over an opaque cell %T", c)
		return false
	}
	neg := false
	if len(cells) > 0 {
		if isByte(cells[0], '-') {
			neg = true
			cells = cells[1:]
		} else if isByte(cells[0], '+') {
			cells = cells[1:]
		}
	}
	if len(cells) == 0 {
		return bigv{}, false
	}
	if base == 0 && len(cells) > 1 && isByte(cells[0], '0') {
		unsup("big.Int.SetString(base 0) of a prefixed/octal literal with symbolic digits")
	}
	finish := func(t *smt.Term) (bigv, bool) {
		if neg {
			t = C.Neg(t)
		}
		return bigv{t: t}, true
	}
	// positional-notation identity: leading concrete zeros, then exactly the digits of one x
	rest := cells
	for len(rest) > 1 {
		if b, isb := rest[0].(uint8); isb && b == '0' {
			rest = rest[1:]
		} else {
			break
		}
	}
	for _, ds := range i.m.digitSeqs {
		if len(ds.cells) != len(rest) {
			continue
		}
		same := true
		for j, c := range rest {
			switch c := c.(type) {
			case uint8:
				d, ok := ds.cells[j].(uint8)
				same = ok && d == c
			case symInt:
				d, ok := ds.cells[j].(symInt)
				same = ok && d.t == c.t
			default:
				same = false
			}
			if !same {
				break
			}
		}
		if same {
			i.m.Stubs["big.Int decimal text: sum_i digit_i(x)*10^i = x (positional notation)"]++
			return finish(ds.x)
		}
	}
	// cell by cell
	sum := C.ConstI(0)
	for _, c := range cells {
		var d *smt.Term
		switch c := c.(type) {
		case uint8:
			if c == '_' && base == 0 {
				unsup("big.Int.SetString(base 0) with digit separators")
			}
			if c < '0' || c > '9' {
				return bigv{}, false
			}
			d = C.ConstI(int64(c - '0'))
		case symInt:
			if !i.decide(C.And(C.Le(C.ConstI('0'), c.t), C.Le(c.t, C.ConstI('9')))) {
				if base == 0 && i.decide(C.Eq(c.t, C.ConstI('_'))) {
					unsup("big.Int.SetString(base 0) with digit separators")
				}
				return bigv{}, false
			}
			d = C.Add(c.t, C.ConstI(-'0'))
		default:
			unsup("big.Int.SetString over an opaque cell %T", c)
		}
		sum = C.Add(C.Mul(sum, C.ConstI(10)), d)
	}
	return finish(sum)
}
