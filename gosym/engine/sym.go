package engine

// Symbolic value model layered on the concrete interpreter values.

import (
	"strings"
	"fmt"
	"go/token"
	"go/types"
	"math/big"

	"gosym/smt"
)

// symInt is a symbolic machine integer of basic kind k.
type symInt struct {
	t *smt.Term
	k types.BasicKind
}

// symBool is a symbolic bool.
type symBool struct{ t *smt.Term }

// symStr is a string with at least one symbolic byte. cells are uint8 or symInt{k:Uint8}.
type symStr struct{ cells []value }

// bigv is the payload of a math/big.Int (stored in slot 1 "abs" of the struct).
type bigv struct {
	c *big.Int
	t *smt.Term
}

// boxCell is the single cell of an opaque codec token ([]byte of length 1).
type boxCell struct {
	kind string // "bin", "binlp", "json"
	t    types.Type
	v    value // deep copy of the marshalled value
}

// fallthroughSSA is returned by an intrinsic that declines (concrete arguments): the SSA body is interpreted instead.
type fallthroughSSA struct{}

// unsupported is raised (as a Go panic) when the engine cannot model something.
type unsupported struct{ msg string }

func (u unsupported) Error() string { return "UNSUPPORTED: " + u.msg }

func unsup(format string, a ...interface{}) {
	panic(unsupported{fmt.Sprintf(format, a...)})
}

// pathEnd terminates the current path silently (infeasible assumption, os.Exit ...).
type pathEnd struct{ reason string }

func kindBits(k types.BasicKind) (bits int, signed bool) {
	switch k {
	case types.Int, types.Int64:
		return 64, true
	case types.Int8:
		return 8, true
	case types.Int16:
		return 16, true
	case types.Int32:
		return 32, true
	case types.Uint, types.Uint64, types.Uintptr:
		return 64, false
	case types.Uint8:
		return 8, false
	case types.Uint16:
		return 16, false
	case types.Uint32:
		return 32, false
	}
	panic(fmt.Sprintf("kindBits: %v", k))
}

func kindRange(k types.BasicKind) (lo, hi *big.Int, bits int) {
	bits, signed := kindBits(k)
	if signed {
		lo = new(big.Int).Neg(new(big.Int).Lsh(big.NewInt(1), uint(bits-1)))
		hi = new(big.Int).Sub(new(big.Int).Lsh(big.NewInt(1), uint(bits-1)), big.NewInt(1))
	} else {
		lo = big.NewInt(0)
		hi = new(big.Int).Sub(new(big.Int).Lsh(big.NewInt(1), uint(bits)), big.NewInt(1))
	}
	return
}

func kindOf(x value) (types.BasicKind, bool) {
	switch x := x.(type) {
	case int:
		return types.Int, true
	case int8:
		return types.Int8, true
	case int16:
		return types.Int16, true
	case int32:
		return types.Int32, true
	case int64:
		return types.Int64, true
	case uint:
		return types.Uint, true
	case uint8:
		return types.Uint8, true
	case uint16:
		return types.Uint16, true
	case uint32:
		return types.Uint32, true
	case uint64:
		return types.Uint64, true
	case uintptr:
		return types.Uintptr, true
	case symInt:
		return x.k, true
	}
	return 0, false
}

func isSym(x value) bool {
	switch x.(type) {
	case symInt, symBool, symStr:
		return true
	}
	return false
}

func concreteBig(x value) *big.Int {
	switch x := x.(type) {
	case int:
		return big.NewInt(int64(x))
	case int8:
		return big.NewInt(int64(x))
	case int16:
		return big.NewInt(int64(x))
	case int32:
		return big.NewInt(int64(x))
	case int64:
		return big.NewInt(x)
	case uint:
		return new(big.Int).SetUint64(uint64(x))
	case uint8:
		return new(big.Int).SetUint64(uint64(x))
	case uint16:
		return new(big.Int).SetUint64(uint64(x))
	case uint32:
		return new(big.Int).SetUint64(uint64(x))
	case uint64:
		return new(big.Int).SetUint64(x)
	case uintptr:
		return new(big.Int).SetUint64(uint64(x))
	}
	return nil
}

// mkInt builds a concrete Go value of kind k from v (which must be in range).
func mkInt(k types.BasicKind, v *big.Int) value {
	switch k {
	case types.Int:
		return int(v.Int64())
	case types.Int8:
		return int8(v.Int64())
	case types.Int16:
		return int16(v.Int64())
	case types.Int32:
		return int32(v.Int64())
	case types.Int64:
		return v.Int64()
	case types.Uint:
		return uint(v.Uint64())
	case types.Uint8:
		return uint8(v.Uint64())
	case types.Uint16:
		return uint16(v.Uint64())
	case types.Uint32:
		return uint32(v.Uint64())
	case types.Uint64:
		return v.Uint64()
	case types.Uintptr:
		return uintptr(v.Uint64())
	}
	panic("mkInt")
}

// term returns the Int term of an integer value (concrete or symbolic).
func (i *interpreter) term(x value) *smt.Term {
	switch x := x.(type) {
	case symInt:
		return x.t
	case symBool:
		return x.t
	case bool:
		return i.m.C.BoolConst(x)
	}
	if b := concreteBig(x); b != nil {
		return i.m.C.Const(b)
	}
	panic(unsupported{fmt.Sprintf("term of %T", x)})
}

// wrapK wraps t into kind k and concretises constants.
func (i *interpreter) wrapK(t *smt.Term, k types.BasicKind) value {
	lo, _, bits := kindRange(k)
	t = i.m.C.Wrap(t, lo, bits)
	if t.IsConst() {
		return mkInt(k, t.Val)
	}
	return symInt{t, k}
}

func (i *interpreter) boolv(t *smt.Term) value {
	if t.IsTrue() {
		return true
	}
	if t.IsFalse() {
		return false
	}
	return symBool{t}
}

// contiguousMask reports whether m = ((1<<n)-1)<<a.
func contiguousMask(m *big.Int) (a, n int, ok bool) {
	if m.Sign() <= 0 {
		return 0, 0, false
	}
	a = int(m.TrailingZeroBits())
	s := new(big.Int).Rsh(m, uint(a))
	n = s.BitLen()
	full := new(big.Int).Sub(new(big.Int).Lsh(big.NewInt(1), uint(n)), big.NewInt(1))
	return a, n, s.Cmp(full) == 0
}

func pow2(n int) *big.Int { return new(big.Int).Lsh(big.NewInt(1), uint(n)) }

// symBinop handles binary operators when at least one operand is symbolic.
func (i *interpreter) symBinop(op token.Token, t types.Type, x, y value) value {
	C := i.m.C
	// bool equality
	if _, ok := x.(symBool); ok || isBoolish(y) && isBoolish(x) {
		xt, yt := i.term(x), i.term(y)
		switch op {
		case token.EQL:
			return i.boolv(C.Iff(xt, yt))
		case token.NEQ:
			return i.boolv(C.Not(C.Iff(xt, yt)))
		}
		unsup("bool binop %s", op)
	}
	// strings
	if isStrish(x) || isStrish(y) {
		return i.strBinop(op, x, y)
	}
	kx, okx := kindOf(x)
	if !okx {
		unsup("symBinop %s on %T,%T", op, x, y)
	}
	xt := i.term(x)
	switch op {
	case token.SHL, token.SHR:
		yb := concreteBig(y)
		if yb == nil {
			ys := y.(symInt)
			if ys.t.Lo != nil && ys.t.Hi != nil && new(big.Int).Sub(ys.t.Hi, ys.t.Lo).Cmp(big.NewInt(64)) <= 0 {
				y = i.concretize(ys)
				yb = concreteBig(y)
			} else {
				unsup("shift by symbolic count")
			}
		}
		if yb.Sign() < 0 {
			panic("negative shift amount")
		}
		bits, _ := kindBits(kx)
		n := int(yb.Int64())
		if op == token.SHL {
			if n >= bits {
				return mkInt(kx, big.NewInt(0))
			}
			return i.wrapK(C.Mul(xt, C.Const(pow2(n))), kx)
		}
		if n >= bits+1 {
			n = bits + 1
		}
		return i.wrapK(C.Div(xt, C.Const(pow2(n))), kx)
	}
	yt := i.term(y)
	switch op {
	case token.ADD:
		return i.wrapK(C.Add(xt, yt), kx)
	case token.SUB:
		return i.wrapK(C.Sub(xt, yt), kx)
	case token.MUL:
		return i.wrapK(C.Mul(xt, yt), kx)
	case token.QUO, token.REM:
		if i.decide(C.Eq(yt, C.ConstI(0))) {
			panic(runtimeErr("integer divide by zero"))
		}
		if op == token.QUO {
			return i.wrapK(C.TruncDiv(xt, yt), kx)
		}
		return i.wrapK(C.TruncRem(xt, yt), kx)
	case token.AND, token.OR, token.XOR, token.AND_NOT:
		return i.symBitop(op, kx, x, y)
	case token.EQL:
		return i.boolv(C.Eq(xt, yt))
	case token.NEQ:
		return i.boolv(C.Not(C.Eq(xt, yt)))
	case token.LSS:
		return i.boolv(C.Lt(xt, yt))
	case token.LEQ:
		return i.boolv(C.Le(xt, yt))
	case token.GTR:
		return i.boolv(C.Lt(yt, xt))
	case token.GEQ:
		return i.boolv(C.Le(yt, xt))
	}
	unsup("symBinop %s", op)
	return nil
}

func isBoolish(x value) bool {
	switch x.(type) {
	case bool, symBool:
		return true
	}
	return false
}

func isStrish(x value) bool {
	switch x.(type) {
	case string, symStr:
		return true
	}
	return false
}

// unsignedTerm returns x's two's-complement bit pattern as a non-negative Int term.
func (i *interpreter) unsignedTerm(x value, k types.BasicKind) *smt.Term {
	bits, signed := kindBits(k)
	t := i.term(x)
	if !signed {
		return t
	}
	return i.m.C.Wrap(t, big.NewInt(0), bits)
}

func (i *interpreter) symBitop(op token.Token, k types.BasicKind, x, y value) value {
	C := i.m.C
	bits, _ := kindBits(k)
	// put the constant on the right
	xb, yb := concreteBig(x), concreteBig(y)
	if xb != nil && yb == nil && op != token.AND_NOT {
		x, y = y, x
		xb, yb = yb, xb
	}
	if yb != nil {
		ym := new(big.Int).Set(yb)
		if ym.Sign() < 0 {
			ym.Add(ym, pow2(bits))
		}
		if op == token.AND_NOT {
			// x &^ m == x & ^m
			ym = new(big.Int).Sub(new(big.Int).Sub(pow2(bits), big.NewInt(1)), ym)
			op = token.AND
		}
		ux := i.unsignedTerm(x, k)
		switch op {
		case token.AND:
			if ym.Sign() == 0 {
				return mkInt(k, big.NewInt(0))
			}
			if a, n, ok := contiguousMask(ym); ok {
				r := C.Mod(C.Div(ux, C.Const(pow2(a))), C.Const(pow2(n)))
				r = C.Mul(r, C.Const(pow2(a)))
				return i.wrapK(r, k)
			}
		case token.OR, token.XOR:
			if ym.Sign() == 0 {
				return x
			}
			// bits of x known zero where mask is set?  (x < 2^a and mask >= 2^a contiguous from a)
			if ux.Hi != nil && ux.Hi.BitLen() <= int(ym.TrailingZeroBits()) {
				return i.wrapK(C.Add(ux, C.Const(ym)), k)
			}
			if op == token.XOR && ym.Cmp(new(big.Int).Sub(pow2(bits), big.NewInt(1))) == 0 {
				return i.wrapK(C.Sub(C.Const(ym), ux), k)
			}
		}
		unsup("bit operation %s with mask %s on symbolic operand", op, ym.Text(16))
	}
	// both symbolic: only disjoint-range OR supported
	ux, uy := i.unsignedTerm(x, k), i.unsignedTerm(y, k)
	if op == token.AND && ux.Hi != nil && uy.Hi != nil {
		// sound over-approximation: r = x & y satisfies 0 <= r <= x and r <= y (used by time.Time's monotonic-bit tests,
		// where the interval alone decides the later mask test)
		i.m.fresh++
		hi := ux.Hi
		if uy.Hi.Cmp(hi) < 0 {
			hi = uy.Hi
		}
		r := C.Var(fmt.Sprintf("and!%d", i.m.fresh), big.NewInt(0), hi)
		i.m.assertPC(C.And(C.Le(r, ux), C.Le(r, uy)))
		i.m.Approx++
		return i.wrapK(r, k)
	}
	if op == token.OR || op == token.XOR {
		if disjointBits(ux, uy) || disjointBits(uy, ux) {
			return i.wrapK(C.Add(ux, uy), k)
		}
		// not evident from the term structure: ask the solver whether, under the path condition, one operand is a
		// multiple of 2^n and the other below 2^n for some n (then x|y = x^y = x+y)
		bits, _ := kindBits(k)
		var cands []int
		if bits <= 8 {
			cands = []int{4, 1, 2, 3, 5, 6, 7}
		} else {
			cands = []int{8, 16, 24, 32, 40, 48, 56, 4, 12}
		}
		for _, pair := range [][2]*smt.Term{{ux, uy}, {uy, ux}} {
			a, b := pair[0], pair[1]
			for _, n := range cands {
				if n >= bits {
					continue
				}
				p := C.Const(pow2(n))
				ok := C.And(C.Eq(C.Mod(a, p), C.ConstI(0)), C.Lt(b, p), C.Le(C.ConstI(0), b))
				if r, _ := i.m.S.CheckWith(C.Not(ok)); r == smt.Unsat {
					return i.wrapK(C.Add(ux, uy), k)
				}
			}
		}
	}
	unsup("bit operation %s on two symbolic operands (%v [%v,%v] ; %v [%v,%v])", op, ux.K, ux.Lo, ux.Hi, uy.K, uy.Lo, uy.Hi)
	return nil
}

// disjointBits: a is a multiple of 2^n and b < 2^n.
func disjointBits(a, b *smt.Term) bool {
	if b.Hi == nil || b.Lo == nil || b.Lo.Sign() < 0 {
		return false
	}
	n := b.Hi.BitLen()
	if a.K == smt.KMul && a.Args[0].IsConst() {
		return int(a.Args[0].Val.TrailingZeroBits()) >= n && a.Args[0].Val.Sign() > 0
	}
	return false
}

func (i *interpreter) symUnop(op token.Token, x value) value {
	C := i.m.C
	switch x := x.(type) {
	case symBool:
		if op == token.NOT {
			return i.boolv(C.Not(x.t))
		}
	case symInt:
		switch op {
		case token.SUB:
			return i.wrapK(C.Neg(x.t), x.k)
		case token.XOR:
			// ^x = -x-1 (signed) ; 2^n-1-x (unsigned)
			bits, signed := kindBits(x.k)
			if signed {
				return i.wrapK(C.Sub(C.Neg(x.t), C.ConstI(1)), x.k)
			}
			return i.wrapK(C.Sub(C.Const(new(big.Int).Sub(pow2(bits), big.NewInt(1))), x.t), x.k)
		}
	}
	unsup("symUnop %s %T", op, x)
	return nil
}

// symConvInt converts integer value x to kind k.
func (i *interpreter) symConvInt(x symInt, k types.BasicKind) value {
	return i.wrapK(x.t, k)
}

// ---------- byte strings ----------

func strCells(x value) []value {
	switch x := x.(type) {
	case string:
		c := make([]value, len(x))
		for j := 0; j < len(x); j++ {
			c[j] = x[j]
		}
		return c
	case symStr:
		return x.cells
	}
	panic(fmt.Sprintf("strCells %T", x))
}

func mkStr(cells []value) value {
	conc := true
	for _, c := range cells {
		if _, ok := c.(uint8); !ok {
			conc = false
			break
		}
	}
	if conc {
		b := make([]byte, len(cells))
		for j, c := range cells {
			b[j] = c.(uint8)
		}
		return string(b)
	}
	cp := make([]value, len(cells))
	copy(cp, cells)
	for _, c := range cp {
		switch c.(type) {
		case uint8, symInt, boxCell:
		default:
			unsup("string conversion of non-byte cell %T", c)
		}
	}
	return symStr{cp}
}

// cmpCells returns (lt, eq) terms for lexicographic comparison of two byte sequences.
func (i *interpreter) cmpCells(a, b []value) (lt, eq *smt.Term) {
	C := i.m.C
	n := len(a)
	if len(b) < n {
		n = len(b)
	}
	// tail: all first n equal
	if len(a) == len(b) {
		lt, eq = C.False(), C.True()
	} else if len(a) < len(b) {
		lt, eq = C.True(), C.False()
	} else {
		lt, eq = C.False(), C.False()
	}
	a, b = i.digestBytes(a), i.digestBytes(b)
	// a concrete byte that differs before anything symbolic or opaque decides the comparison
	for j := 0; j < n; j++ {
		x, okx := a[j].(uint8)
		y, oky := b[j].(uint8)
		if !okx || !oky {
			break
		}
		if x != y {
			return C.BoolConst(x < y), C.False()
		}
	}
	for j := n - 1; j >= 0; j-- {
		ba, aBox := a[j].(boxCell)
		bb, bBox := b[j].(boxCell)
		if aBox || bBox {
			// opaque codec tokens: only equality is defined (token == token iff contents equal; token != raw bytes)
			var e *smt.Term
			if aBox && bBox {
				e = i.boxEq(ba, bb)
				if e.IsFalse() {
					// two different closed digests: ordered by their fingerprints
					if less, ok := i.digestOrder(ba, bb); ok {
						lt = C.BoolConst(less)
						eq = C.False()
						continue
					}
				}
			} else {
				e = C.False()
			}
			lt = C.And(e, lt) // ordering against a token is not modelled: callers needing lt get UNSUPPORTED via ltPoison
			if !e.IsTrue() {
				i.ltPoison = true
			}
			eq = C.And(e, eq)
			continue
		}
		at, bt := i.term(a[j]), i.term(b[j])
		e := C.Eq(at, bt)
		l := C.Lt(at, bt)
		lt = C.Or(l, C.And(e, lt))
		eq = C.And(e, eq)
	}
	return
}

func (i *interpreter) boxEq(a, b boxCell) *smt.Term {
	if a.kind != b.kind || !sameType(a.t, b.t) {
		return i.m.C.False()
	}
	if fa, ok := i.closedBoxFP(a); ok {
		if fb, ok := i.closedBoxFP(b); ok {
			return i.m.C.BoolConst(fa == fb)
		}
	}
	if a.kind == "hash:sha256" {
		ta, tb := a.v.(tuple), b.v.(tuple)
		if ta[1].(int) != tb[1].(int) {
			return i.m.C.False()
		}
		sa, sb := ta[0].([]value), tb[0].([]value)
		if len(sa) != len(sb) {
			return i.m.C.False()
		}
		if len(sa) == 0 {
			return i.m.C.True()
		}
		// the 32 cells of one digest share their source: compare each pair of sources once (nested digests - merkle
		// trees - would otherwise cost 32^depth)
		key := [2]*value{&sa[0], &sb[0]}
		if key[0] == key[1] {
			return i.m.C.True()
		}
		if t, ok := i.hashEqMemo[key]; ok {
			return t
		}
		_, eq := i.cmpCells(sa, sb)
		if i.hashEqMemo == nil {
			i.hashEqMemo = map[[2]*value]*smt.Term{}
		}
		i.hashEqMemo[key] = eq
		i.hashEqMemo[[2]*value{key[1], key[0]}] = eq
		return eq
	}
	return i.deepEq(a.v, b.v)
}

// deepEq: structural equality of two values of the same static type, following pointers (codec content equality).
func (i *interpreter) deepEq(x, y value) *smt.Term {
	C := i.m.C
	switch x := x.(type) {
	case structure:
		ys, ok := y.(structure)
		if !ok || len(ys) != len(x) {
			return C.False()
		}
		// big.Int payload
		if len(x) == 2 {
			_, xb := x[1].(bigv)
			_, yb := ys[1].(bigv)
			if xb || yb {
				return C.Eq(i.bt(bigOf(x)), i.bt(bigOf(ys)))
			}
		}
		acc := C.True()
		for j := range x {
			acc = C.And(acc, i.deepEq(x[j], ys[j]))
			if acc.IsFalse() {
				return acc
			}
		}
		return acc
	case array:
		ya, ok := y.(array)
		if !ok || len(ya) != len(x) {
			return C.False()
		}
		acc := C.True()
		for j := range x {
			acc = C.And(acc, i.deepEq(x[j], ya[j]))
		}
		return acc
	case []value:
		ys, ok := y.([]value)
		if !ok || len(ys) != len(x) {
			return C.False()
		}
		acc := C.True()
		for j := range x {
			acc = C.And(acc, i.deepEq(x[j], ys[j]))
		}
		return acc
	case tuple:
		yt, ok := y.(tuple)
		if !ok || len(yt) != len(x) {
			return C.False()
		}
		acc := C.True()
		for j := range x {
			acc = C.And(acc, i.deepEq(x[j], yt[j]))
		}
		return acc
	case *value:
		yp, ok := y.(*value)
		if !ok {
			return C.False()
		}
		if x == nil || yp == nil {
			return C.BoolConst(x == nil && yp == nil)
		}
		return i.deepEq(*x, *yp)
	case iface:
		yi, ok := y.(iface)
		if !ok || !sameType(x.t, yi.t) {
			return C.False()
		}
		if x.t == nil {
			return C.True()
		}
		return i.deepEq(x.v, yi.v)
	case boxCell:
		yb, ok := y.(boxCell)
		if !ok {
			return C.False()
		}
		return i.boxEq(x, yb)
	case string, symStr:
		if !isStrish(y) {
			return C.False()
		}
		_, eq := i.cmpCells(strCells(x), strCells(y))
		return eq
	case bool, symBool:
		return C.Iff(i.term(x), i.term(y))
	case *omap:
		unsup("deep comparison of maps")
	}
	if _, ok := kindOf(x); ok {
		if _, ok2 := kindOf(y); ok2 {
			return C.Eq(i.term(x), i.term(y))
		}
		return C.False()
	}
	switch x.(type) {
	case float32, float64:
		return C.BoolConst(x == y)
	}
	unsup("deep comparison of %T", x)
	return nil
}

func bigOf(st structure) bigv {
	if b, ok := st[1].(bigv); ok {
		return b
	}
	return bigv{c: new(big.Int)}
}

func (i *interpreter) strBinop(op token.Token, x, y value) value {
	C := i.m.C
	a, b := strCells(x), strCells(y)
	switch op {
	case token.ADD:
		return mkStr(append(append([]value{}, a...), b...))
	}
	i.ltPoison = false
	lt, eq := i.cmpCells(a, b)
	switch op {
	case token.EQL:
		return i.boolv(eq)
	case token.NEQ:
		return i.boolv(C.Not(eq))
	}
	if i.ltPoison {
		unsup("ordering comparison involving an opaque codec token")
	}
	switch op {
	case token.LSS:
		return i.boolv(lt)
	case token.LEQ:
		return i.boolv(C.Or(lt, eq))
	case token.GTR:
		return i.boolv(C.Not(C.Or(lt, eq)))
	case token.GEQ:
		return i.boolv(C.Not(lt))
	}
	unsup("string binop %s", op)
	return nil
}

// ---------- equality (possibly symbolic) ----------

// eqv returns x == y for type t as bool or symBool.
func (i *interpreter) eqv(t types.Type, x, y value) value {
	C := i.m.C
	// an opaque token cell equals only an equal token, never a raw byte
	xb, xIsBox := x.(boxCell)
	yb, yIsBox := y.(boxCell)
	if xIsBox || yIsBox {
		if xIsBox && yIsBox {
			return i.boolv(i.boxEq(xb, yb))
		}
		if strings.HasPrefix(xb.kind, "hash:") || strings.HasPrefix(yb.kind, "hash:") {
			unsup("digest of a symbolic input compared with concrete bytes")
		}
		return false
	}
	switch x := x.(type) {
	case symInt, symBool:
		return i.symBinop(token.EQL, t, x, y)
	case symStr:
		return i.strBinop(token.EQL, x, y)
	case structure:
		ys := y.(structure)
		tStruct := t.Underlying().(*types.Struct)
		acc := C.True()
		for j, n := 0, tStruct.NumFields(); j < n; j++ {
			if f := tStruct.Field(j); f.Name() != "_" {
				e := i.eqv(f.Type(), x[j], ys[j])
				acc = C.And(acc, i.term(e))
				if acc.IsFalse() {
					return false
				}
			}
		}
		return i.boolv(acc)
	case array:
		ya := y.(array)
		tElt := t.Underlying().(*types.Array).Elem()
		acc := C.True()
		for j := range x {
			e := i.eqv(tElt, x[j], ya[j])
			acc = C.And(acc, i.term(e))
			if acc.IsFalse() {
				return false
			}
		}
		return i.boolv(acc)
	case iface:
		yi := y.(iface)
		if !sameType(x.t, yi.t) {
			return false
		}
		if x.t == nil {
			return true
		}
		return i.eqv(x.t, x.v, yi.v)
	case bigv:
		unsup("comparison of opaque value %T", x)
	}
	if isSym(y) {
		switch y.(type) {
		case symStr:
			return i.strBinop(token.EQL, x, y)
		}
		return i.symBinop(token.EQL, t, x, y)
	}
	return equals(t, x, y)
}
