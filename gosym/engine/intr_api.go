package engine

// Intrinsics for the harness support package (github.com/pokt-network/posmint/zzverif).

import (
	"fmt"
	"go/types"
	"math/big"

	"gosym/smt"
)

const vpkg = RepoMod + "/zzverif."

func strArg(v value) string {
	s, ok := v.(string)
	if !ok {
		unsup("harness API needs a constant string argument, got %T", v)
	}
	return s
}

func init() {
	for k, v := range map[string]externalFn{
		vpkg + "Int64": func(fr *frame, a []value) value {
			return fr.i.nondetInt(strArg(a[0]), types.Int64, concreteBig(a[1]), concreteBig(a[2]))
		},
		vpkg + "Int": func(fr *frame, a []value) value {
			return fr.i.nondetInt(strArg(a[0]), types.Int, concreteBig(a[1]), concreteBig(a[2]))
		},
		vpkg + "Uint64": func(fr *frame, a []value) value {
			return fr.i.nondetInt(strArg(a[0]), types.Uint64, concreteBig(a[1]), concreteBig(a[2]))
		},
		vpkg + "Byte": func(fr *frame, a []value) value {
			return fr.i.nondetInt(strArg(a[0]), types.Uint8, big.NewInt(0), big.NewInt(255))
		},
		vpkg + "Bool": func(fr *frame, a []value) value {
			m := fr.i.m
			return symBool{m.C.BVar(m.uniq(strArg(a[0])))}
		},
		vpkg + "Bytes": func(fr *frame, a []value) value {
			m := fr.i.m
			n := int(asInt64(a[1]))
			base := m.uniq(strArg(a[0]))
			out := make([]value, n)
			for j := 0; j < n; j++ {
				out[j] = symInt{m.C.Var(fmt.Sprintf("%s[%d]", base, j), big.NewInt(0), big.NewInt(255)), types.Uint8}
			}
			return out
		},
		vpkg + "Big": func(fr *frame, a []value) value {
			m := fr.i.m
			lo, hi := getBig(a[1]), getBig(a[2])
			if lo.c == nil || hi.c == nil {
				unsup("zzverif.Big bounds must be concrete")
			}
			if lo.c.Cmp(hi.c) > 0 {
				panic(pathEnd{"empty range"})
			}
			if lo.c.Cmp(hi.c) == 0 {
				return newBig(bigv{c: new(big.Int).Set(lo.c)})
			}
			t := m.C.Var(m.uniq(strArg(a[0])), lo.c, hi.c)
			return newBig(bigv{t: t})
		},
		vpkg + "Choice": func(fr *frame, a []value) value {
			i := fr.i
			n := int(asInt64(a[1]))
			name := i.m.uniq(strArg(a[0]))
			if n <= 0 {
				panic(pathEnd{"Choice(0)"})
			}
			k := 0
			if n > 1 {
				k = i.decideN(n, func(int) *smt.Term { return i.m.C.True() })
			}
			i.m.Choices[name] = k
			return k
		},
		vpkg + "Assume": func(fr *frame, a []value) value {
			fr.i.doAssume(a[0])
			return nil
		},
		vpkg + "Assert": func(fr *frame, a []value) value {
			pos := ""
			if fr.caller != nil {
				pos = fr.caller.fn.Name()
			}
			fr.i.doAssert(strArg(a[0]), a[1], pos, false)
			return nil
		},
		vpkg + "Hunt": func(fr *frame, a []value) value {
			fr.i.doAssert(strArg(a[0]), a[1], "", true)
			return nil
		},
		vpkg + "Reach": func(fr *frame, a []value) value {
			fr.i.m.Reached = append(fr.i.m.Reached, strArg(a[0]))
			return nil
		},
		vpkg + "Known": func(fr *frame, a []value) value {
			return fr.i.m.Known[strArg(a[0])]
		},
		vpkg + "Thorough": func(fr *frame, a []value) value { return fr.i.m.Thorough },
		vpkg + "And": func(fr *frame, a []value) value {
			return fr.i.boolv(fr.i.m.C.And(fr.i.term(a[0]), fr.i.term(a[1])))
		},
		vpkg + "Or": func(fr *frame, a []value) value {
			return fr.i.boolv(fr.i.m.C.Or(fr.i.term(a[0]), fr.i.term(a[1])))
		},
		vpkg + "Not": func(fr *frame, a []value) value {
			return fr.i.boolv(fr.i.m.C.Not(fr.i.term(a[0])))
		},
		vpkg + "Implies": func(fr *frame, a []value) value {
			return fr.i.boolv(fr.i.m.C.Implies(fr.i.term(a[0]), fr.i.term(a[1])))
		},
		vpkg + "BytesEqual": func(fr *frame, a []value) value {
			_, eq := fr.i.cmpCells(byteCells(a[0]), byteCells(a[1]))
			return fr.i.boolv(eq)
		},
		vpkg + "BytesLess": func(fr *frame, a []value) value {
			fr.i.ltPoison = false
			lt, _ := fr.i.cmpCells(byteCells(a[0]), byteCells(a[1]))
			if fr.i.ltPoison {
				unsup("ordering comparison involving an opaque codec token")
			}
			return fr.i.boolv(lt)
		},
		vpkg + "SetEnv": func(fr *frame, a []value) value {
			fr.i.m.Ghost[strArg(a[0])] = a[1]
			return nil
		},
		vpkg + "GetEnv": func(fr *frame, a []value) value {
			if v, ok := fr.i.m.Ghost[strArg(a[0])]; ok {
				return v
			}
			return false
		},
		vpkg + "NondetMapOrder": func(fr *frame, a []value) value {
			fr.i.m.MapNondet = a[0].(bool)
			return nil
		},
		vpkg + "ExactBigText": func(fr *frame, a []value) value {
			fr.i.m.BigText = a[0].(bool)
			return nil
		},
		vpkg + "RaceDetect": func(fr *frame, a []value) value {
			fr.i.raceID = a[0].(string)
			if fr.i.raceID != "" {
				fr.i.m.Stubs["data-race detection: vector clocks over go/mutex/channel/WaitGroup happens-before edges"]++
			}
			return nil
		},
		vpkg + "TempDir": func(fr *frame, a []value) value { return "/zzverif/" + strArg(a[0]) },
		vpkg + "Yield": func(fr *frame, a []value) value { fr.i.yield(); return nil },
		vpkg + "Symbolic": func(fr *frame, a []value) value { return true },
		vpkg + "Logf":     func(fr *frame, a []value) value { return nil },
	} {
		externals[k] = v
	}
}

func (i *interpreter) nondetInt(name string, k types.BasicKind, lo, hi *big.Int) value {
	m := i.m
	klo, khi, _ := kindRange(k)
	if lo == nil || hi == nil {
		unsup("nondet bounds must be concrete")
	}
	if lo.Cmp(klo) < 0 || hi.Cmp(khi) > 0 {
		unsup("nondet bounds outside the type's range")
	}
	if lo.Cmp(hi) > 0 {
		panic(pathEnd{"empty range"})
	}
	name = m.uniq(name)
	if lo.Cmp(hi) == 0 {
		return mkInt(k, lo)
	}
	return symInt{m.C.Var(name, lo, hi), k}
}
