package engine

// Per-path symbolic machine state: path condition, decision prefix, assertions.

import (
	"fmt"
	"math/big"
	"sort"
	"strings"

	"gosym/smt"
)

type runtimeErr string

func (e runtimeErr) Error() string   { return "runtime error: " + string(e) }
func (e runtimeErr) RuntimeError()   {}

// Decision is one recorded branch decision.
type Decision struct {
	Choice int
	Arity  int
	Forced bool // other alternatives infeasible (not enqueued)
}

// AssertRec records what happened at one vAssert on one path.
type AssertRec struct {
	ID       string
	Result   string // "discharged", "concrete-ok", "violated", "unknown"
	Ms       float64
	Model    smt.Model
	Why      string
	Cross    map[string]string
	Pos      string
}

type Observation struct {
	Key  string
	Term *smt.Term // nil if concrete
	Conc string
}

type Machine struct {
	C      *smt.Ctx
	S      *smt.Session
	Prefix []int
	Trace  []Decision
	pos    int
	// alternatives discovered on this run: each is a full prefix
	NewPrefixes [][]int

	Steps      int64
	StepBudget int64
	names      map[string]int
	Asserts    []AssertRec
	Reached    []string
	Observed   []Observation
	Choices    map[string]int // vChoice name -> picked (for replay)
	Unconfirmed bool           // a feasibility check returned unknown on this path
	Known      map[string]bool // enabled known-finding exclusions
	CrossCheck bool
	Funcs      map[string]int // function -> instructions interpreted (evidence)
	Stubs      map[string]int // intrinsic/stub name -> calls
	ExitCode   *int
	Ghost      map[string]value
	Thorough   bool
	MapNondet  bool
	BigText    bool // exact decimal text of symbolic big.Int (zz.ExactBigText)
	digitSeqs  []digitInfo
	fresh      int
	Approx     int // number of over-approximated operations on this path
}

func (m *Machine) uniq(name string) string {
	m.names[name]++
	if n := m.names[name]; n > 1 {
		return fmt.Sprintf("%s#%d", name, n)
	}
	return name
}

// decide resolves a symbolic branch condition, forking if both sides are feasible.
func (i *interpreter) decide(c *smt.Term) bool {
	if c.IsTrue() {
		return true
	}
	if c.IsFalse() {
		return false
	}
	return i.decideN(2, func(k int) *smt.Term {
		if k == 0 {
			return c
		}
		return i.m.C.Not(c)
	}) == 0
}

// decideN picks one of n alternatives whose guards are given by cond(k).
// Alternative order: 0 first.
func (i *interpreter) decideN(n int, cond func(k int) *smt.Term) int {
	m := i.m
	if m.pos < len(m.Prefix) {
		k := m.Prefix[m.pos]
		m.pos++
		m.Trace = append(m.Trace, Decision{Choice: k, Arity: n, Forced: true})
		m.assertPC(cond(k))
		return k
	}
	// new decision: find feasible alternatives
	var feas []int
	for k := 0; k < n; k++ {
		ck := cond(k)
		if ck.IsFalse() {
			continue
		}
		// last alternative with none feasible so far must be feasible (path is feasible) —
		// only valid if the guards are exhaustive; we still check to stay safe for n>2.
		if k == n-1 && len(feas) == 0 && n == 2 {
			feas = append(feas, k)
			break
		}
		r, _ := m.S.CheckWith(ck)
		switch r {
		case smt.Sat:
			feas = append(feas, k)
		case smt.Unknown:
			m.Unconfirmed = true
			feas = append(feas, k)
		}
	}
	if len(feas) == 0 {
		panic(pathEnd{"no feasible alternative (path condition unsatisfiable)"})
	}
	pick := feas[0]
	base := append([]int{}, m.Prefix...)
	for _, d := range m.Trace[len(m.Prefix):] {
		base = append(base, d.Choice)
	}
	for _, k := range feas[1:] {
		np := append(append([]int{}, base...), k)
		m.NewPrefixes = append(m.NewPrefixes, np)
	}
	m.Trace = append(m.Trace, Decision{Choice: pick, Arity: n, Forced: len(feas) == 1})
	m.pos++
	// keep Prefix aligned: extend it so later decisions append after
	m.Prefix = append(m.Prefix, pick)
	m.assertPC(cond(pick))
	return pick
}

// concretize turns a symbolic integer with a small interval into a concrete one by forking.
func (i *interpreter) concretize(x symInt) value {
	t := x.t
	if t.Lo == nil || t.Hi == nil {
		unsup("concretization of unbounded symbolic integer %s", t)
	}
	w := new(big.Int).Sub(t.Hi, t.Lo)
	if w.Cmp(big.NewInt(40)) > 0 {
		unsup("concretization of symbolic integer with range [%s,%s] (index/size/shift must be concrete or tightly bounded)", t.Lo, t.Hi)
	}
	n := int(w.Int64()) + 1
	lo := new(big.Int).Set(t.Lo) // t.Lo is tightened by the decision below: capture it first
	k := i.decideN(n, func(k int) *smt.Term {
		return i.m.C.Eq(t, i.m.C.Const(new(big.Int).Add(lo, big.NewInt(int64(k)))))
	})
	return mkInt(x.k, new(big.Int).Add(lo, big.NewInt(int64(k))))
}

// idx converts an index/size value to int64, concretising when needed.
func (i *interpreter) idx(x value) int64 {
	if s, ok := x.(symInt); ok {
		x = i.concretize(s)
	}
	return asInt64(x)
}

// condBool resolves a (possibly symbolic) bool.
func (i *interpreter) condBool(x value) bool {
	switch x := x.(type) {
	case bool:
		return x
	case symBool:
		return i.decide(x.t)
	}
	panic(fmt.Sprintf("condBool %T", x))
}

// ---------- assertions ----------

func (i *interpreter) doAssume(c value) {
	switch c := c.(type) {
	case bool:
		if !c {
			panic(pathEnd{"assume(false)"})
		}
	case symBool:
		m := i.m
		if m.pos < len(m.Prefix) {
			// replayed part: already known feasible
		} else {
			r, _ := m.S.CheckWith(c.t)
			if r == smt.Unsat {
				panic(pathEnd{"assumption infeasible"})
			}
			if r == smt.Unknown {
				m.Unconfirmed = true
			}
		}
		m.assertPC(c.t)
	}
}

// assertPC adds t to the path condition and refines intervals from it.
func (m *Machine) assertPC(t *smt.Term) {
	if err := m.S.Assert(t); err != nil {
		unsup("%v", err)
	}
	m.C.Refine(t)
}

// violation ends the path after recording a violated assertion.
type violation struct{ id string }

func (i *interpreter) doAssert(id string, c value, pos string, hunt bool) {
	m := i.m
	rec := AssertRec{ID: id, Pos: pos}
	switch c := c.(type) {
	case bool:
		if c {
			rec.Result = "concrete-ok"
			m.Asserts = append(m.Asserts, rec)
			return
		}
		// violated on every input of this path: need a model of the path condition
		r, model, why := m.S.CheckModel(m.C.True())
		if r == smt.Sat {
			rec.Result = "violated"
			rec.Model = model
		} else if r == smt.Unsat {
			panic(pathEnd{"path condition unsatisfiable at assert"})
		} else {
			rec.Result = "unknown"
			rec.Why = why
		}
		m.Asserts = append(m.Asserts, rec)
		if rec.Result == "violated" {
			panic(violation{id})
		}
		panic(pathEnd{"assert undecided"})
	case symBool:
		neg := m.C.Not(c.t)
		r, model, why := m.S.CheckModel(neg)
		switch r {
		case smt.Unsat:
			rec.Result = "discharged"
			if m.CrossCheck && len(m.S.Mirrors) > 0 {
				rec.Cross = map[string]string{}
				for n, rr := range m.S.CrossCheck(neg) {
					rec.Cross[n] = rr.String()
					// a mirror that answers sat contradicts the primary: undischarged.  A mirror that times out is recorded
					// (evidence: cross_unknown) but does not contradict anything.
					if rr == smt.Sat {
						rec.Result = "unknown"
						rec.Why = fmt.Sprintf("solver disagreement: z3=unsat %s=%s", n, rr)
					}
				}
			}
			m.Asserts = append(m.Asserts, rec)
			if rec.Result == "discharged" {
				m.assertPC(c.t)
				return
			}
			panic(pathEnd{"assert undecided"})
		case smt.Sat:
			rec.Result = "violated"
			rec.Model = model
			m.Asserts = append(m.Asserts, rec)
			panic(violation{id})
		default:
			if hunt {
				rec.Result = "hunt-unknown"
				rec.Why = why
				m.Asserts = append(m.Asserts, rec)
				return
			}
			rec.Result = "unknown"
			rec.Why = why
			m.Asserts = append(m.Asserts, rec)
			panic(pathEnd{"assert undecided"})
		}
	default:
		panic(fmt.Sprintf("doAssert %T", c))
	}
}

// PathModel returns a model of the current path condition (for validation replays).
func (m *Machine) PathModel() (smt.Model, bool) {
	r, model, _ := m.S.CheckModel(m.C.True())
	return model, r == smt.Sat
}

func modelJSON(m smt.Model) map[string]string {
	out := map[string]string{}
	keys := make([]string, 0, len(m))
	for k := range m {
		keys = append(keys, k)
	}
	sort.Strings(keys)
	for _, k := range keys {
		out[k] = m[k].String()
	}
	return out
}

func shortPos(s string) string {
	if j := strings.LastIndex(s, "/"); j >= 0 {
		return s[j+1:]
	}
	return s
}
