package engine

// Stubs for runtime-linked / reflection-heavy library functions.

import (
	"os"
	"crypto/sha256"
	"encoding/hex"
	"encoding/json"
	"fmt"
	"go/token"
	"go/types"
	"math/big"
	"regexp"
	"sort"
	"strings"
)

func (i *interpreter) mkError(msg string) value {
	pkg := i.prog.ImportedPackage("errors")
	if pkg == nil {
		unsup("errors package not loaded")
	}
	return call(i, nil, token.NoPos, pkg.Func("New"), []value{msg})
}

// fmtArgs renders the ...interface{} slice of a fmt call.
func fmtNative(format string, hasFormat bool, args []value) string {
	var conc []interface{}
	ok := true
	for _, a := range args {
		it, isIface := a.(iface)
		if !isIface {
			ok = false
			break
		}
		switch v := it.v.(type) {
		case bool, int, int8, int16, int32, int64, uint, uint8, uint16, uint32, uint64, uintptr, string, float32, float64:
			// named basic types with String methods would print differently; only accept unnamed basics
			if _, named := it.t.(*types.Named); named {
				if _, isStr := v.(string); !isStr {
					ok = false
				}
			}
			conc = append(conc, v)
		case []value:
			// an unnamed []byte with concrete content (%X, %x, %s of byte slices)
			raw, isBytes := concBytes(v)
			if sl, isSlice := it.t.(*types.Slice); isBytes && isSlice {
				if b, isB := sl.Elem().Underlying().(*types.Basic); isB && b.Kind() == types.Uint8 {
					conc = append(conc, raw)
					break
				}
			}
			ok = false
		default:
			ok = false
		}
		if !ok {
			break
		}
	}
	if ok {
		if hasFormat {
			return fmt.Sprintf(format, conc...)
		}
		return fmt.Sprint(conc...)
	}
	// placeholder: deterministic in the format and in the identity of the (symbolic) arguments, so that equal
	// inputs give equal text and different symbolic inputs give different text
	var sb strings.Builder
	sb.WriteString("<fmt:")
	sb.WriteString(format)
	for _, a := range args {
		sb.WriteByte('|')
		it, isIface := a.(iface)
		if !isIface {
			sb.WriteString("?")
			continue
		}
		switch v := it.v.(type) {
		case symInt:
			fmt.Fprintf(&sb, "t%d", v.t.ID)
		case symBool:
			fmt.Fprintf(&sb, "t%d", v.t.ID)
		case bool, int, int8, int16, int32, int64, uint, uint8, uint16, uint32, uint64, uintptr, string:
			fmt.Fprintf(&sb, "%v", v)
		case *value:
			// fmt prints a pointer to anything but a struct / array / slice / map as its address: text that differs from
			// allocation to allocation (and from process to process)
			if pt, isPtr := it.t.Underlying().(*types.Pointer); isPtr && v != nil {
				switch pt.Elem().Underlying().(type) {
				case *types.Struct, *types.Array, *types.Slice, *types.Map:
					sb.WriteString(it.t.String())
				default:
					fmt.Fprintf(&sb, "address:%p", v)
				}
			} else if it.t != nil {
				sb.WriteString(it.t.String())
			}
		default:
			if it.t != nil {
				sb.WriteString(it.t.String())
			}
		}
	}
	sb.WriteString(">")
	return sb.String()
}

func sliceArg(v value) []value {
	if v == nil {
		return nil
	}
	return v.([]value)
}

func init() {
	nop := func(fr *frame, a []value) value { return nil }
	for k, v := range map[string]externalFn{
		"fmt.Sprintf": func(fr *frame, a []value) value {
			f, ok := a[0].(string)
			if !ok {
				return "<fmt>"
			}
			// a tightly bounded symbolic integer is concretised (forked) so that keys such as "s/%d" stay exact
			args := append([]value{}, sliceArg(a[1])...)
			for j, x := range args {
				if it, ok := x.(iface); ok {
					if s, ok := it.v.(symInt); ok && s.t.Lo != nil && s.t.Hi != nil && new(big.Int).Sub(s.t.Hi, s.t.Lo).Cmp(big.NewInt(40)) <= 0 {
						if _, named := it.t.(*types.Named); !named {
							args[j] = iface{t: it.t, v: fr.i.concretize(s)}
						}
					}
				}
			}
			return fmtNative(f, true, args)
		},
		"fmt.Sprint":   func(fr *frame, a []value) value { return fmtNative("", false, sliceArg(a[0])) },
		"fmt.Sprintln": func(fr *frame, a []value) value { return fmtNative("", false, sliceArg(a[0])) + "\n" },
		// tendermint/iavl's package initialiser builds a dot-graph template nobody in scope uses
		"text/template.New":               func(fr *frame, a []value) value { var p *value; return p },
		"(*text/template.Template).Parse": func(fr *frame, a []value) value { return tuple{a[0], iface{}} },
		"text/template.Must":              func(fr *frame, a []value) value { return a[0] },
		"fmt.Errorf": func(fr *frame, a []value) value {
			f, ok := a[0].(string)
			if !ok {
				f = "<fmt>"
			}
			return fr.i.mkError(fmtNative(f, true, sliceArg(a[1])))
		},
		"fmt.Println": func(fr *frame, a []value) value { return tuple{0, iface{}} },
		"fmt.Printf":  func(fr *frame, a []value) value { return tuple{0, iface{}} },
		"fmt.Print":   func(fr *frame, a []value) value { return tuple{0, iface{}} },
		"fmt.Fprintf": func(fr *frame, a []value) value { return tuple{0, iface{}} },
		"fmt.Fprintln": func(fr *frame, a []value) value { return tuple{0, iface{}} },
		"fmt.Fprint":   func(fr *frame, a []value) value { return tuple{0, iface{}} },

		"os.Exit": func(fr *frame, a []value) value {
			code := int(asInt64(a[0]))
			fr.i.m.ExitCode = &code
			where := ""
			for f, n := fr, 0; f != nil && n < 4; f, n = f.caller, n+1 {
				if f.fn != nil {
					where += " < " + f.fn.String()
				}
			}
			if os.Getenv("GOSYM_TRACE_EXIT") != "" {
				fmt.Fprintln(os.Stderr, "os.Exit"+where)
			}
			panic(targetPanic{iface{t: stringType, v: fmt.Sprintf("os.Exit(%d)", code)}})
		},
		"reflect.DeepEqual": func(fr *frame, a []value) value {
			return fr.i.boolv(fr.i.deepEq(a[0], a[1]))
		},
		"runtime/debug.Stack":      func(fr *frame, a []value) value { return []value(nil) },
		"runtime/debug.PrintStack": nop,

		"(*sync.Once).Do": func(fr *frame, a []value) value {
			p := a[0].(*value)
			if fr.i.onceDone[p] {
				return nil
			}
			fr.i.onceDone[p] = true
			call(fr.i, fr, token.NoPos, a[1], nil)
			return nil
		},
		"regexp.MustCompile": func(fr *frame, a []value) value {
			pat := strArg(a[0])
			re := regexp.MustCompile(pat)
			v := zero(fr.i.prog.ImportedPackage("regexp").Type("Regexp").Type())
			p := &v
			fr.i.regexps[p] = re
			return p
		},
		"(*regexp.Regexp).MatchString": func(fr *frame, a []value) value {
			re := fr.i.regexps[a[0].(*value)]
			s, ok := a[1].(string)
			if re == nil || !ok {
				unsup("regexp match on symbolic string")
			}
			return re.MatchString(s)
		},
		"(*regexp.Regexp).FindStringSubmatch": func(fr *frame, a []value) value {
			re := fr.i.regexps[a[0].(*value)]
			s, ok := a[1].(string)
			if re == nil || !ok {
				unsup("regexp match on symbolic string")
			}
			ms := re.FindStringSubmatch(s)
			if ms == nil {
				return []value(nil)
			}
			out := make([]value, len(ms))
			for j, m := range ms {
				out[j] = m
			}
			return out
		},
		// the wall clock is environment: every call returns a fresh arbitrary instant (years 2001..2100, UTC, no
		// monotonic reading), so any dependence of a result on it shows up as a free variable
		"time.Now": func(fr *frame, a []value) value {
			fr.i.m.Stubs["time.Now: arbitrary instant (fresh symbolic seconds/nanoseconds per call)"]++
			sec := fr.i.nondetInt("env.time.Now.sec", types.Int64, big.NewInt(63113904000+31536000), big.NewInt(63113904000+100*31557600))
			nsec := fr.i.nondetInt("env.time.Now.nsec", types.Uint64, big.NewInt(0), big.NewInt(999999999))
			return structure{nsec, sec, (*value)(nil)}
		},
		"time.runtimeNano": func(fr *frame, a []value) value { return int64(0) },
		"time.now":         func(fr *frame, a []value) value { return tuple{int64(0), int32(0), int64(0)} },
	} {
		externals[k] = v
	}
}

func byteCells(v value) []value {
	switch v := v.(type) {
	case []value:
		return v
	case string, symStr:
		return strCells(v)
	case nil:
		return nil
	}
	panic(fmt.Sprintf("byteCells %T", v))
}

func init() {
	cmp := func(fr *frame, a []value) value {
		C := fr.i.m.C
		fr.i.ltPoison = false
		lt, eq := fr.i.cmpCells(byteCells(a[0]), byteCells(a[1]))
		if fr.i.ltPoison {
			unsup("ordering comparison involving an opaque codec token")
		}
		t := C.Ite(lt, C.ConstI(-1), C.Ite(eq, C.ConstI(0), C.ConstI(1)))
		return fr.i.wrapK(t, types.Int)
	}
	eq := func(fr *frame, a []value) value {
		_, e := fr.i.cmpCells(byteCells(a[0]), byteCells(a[1]))
		return fr.i.boolv(e)
	}
	indexByte := func(fr *frame, a []value) value {
		cells := byteCells(a[0])
		for j, c := range cells {
			if fr.i.condBool(fr.i.eqv(types.Typ[types.Uint8], c, a[1])) {
				return j
			}
		}
		return -1
	}
	// strings.Count / strings.Index over a string with symbolic bytes: single concrete separator byte only
	sepByte := func(v value) (uint8, bool) {
		if s, ok := v.(string); ok && len(s) == 1 {
			return s[0], true
		}
		return 0, false
	}
	externals["strings.Count"] = func(fr *frame, a []value) value {
		if s, ok := a[0].(string); ok {
			if sep, ok := a[1].(string); ok {
				return strings.Count(s, sep)
			}
		}
		b, ok := sepByte(a[1])
		if !ok {
			unsup("strings.Count over symbolic bytes with a separator that is not one concrete byte")
		}
		n := 0
		for _, c := range byteCells(a[0]) {
			if fr.i.condBool(fr.i.eqv(types.Typ[types.Uint8], c, b)) {
				n++
			}
		}
		return n
	}
	externals["strings.Index"] = func(fr *frame, a []value) value {
		if s, ok := a[0].(string); ok {
			if sep, ok := a[1].(string); ok {
				return strings.Index(s, sep)
			}
		}
		b, ok := sepByte(a[1])
		if !ok {
			unsup("strings.Index over symbolic bytes with a separator that is not one concrete byte")
		}
		return indexByte(fr, []value{a[0], b})
	}
	for k, v := range map[string]externalFn{
		"internal/bytealg.Compare":         cmp,
		"bytes.Compare":                    cmp,
		"strings.Compare":                  cmp,
		"internal/bytealg.Equal":           eq,
		"bytes.Equal":                      eq,
		"internal/bytealg.IndexByte":       indexByte,
		"internal/bytealg.IndexByteString": indexByte,
		"bytes.IndexByte":                  indexByte,
		"strings.IndexByte":                indexByte,
	} {
		externals[k] = v
	}
}

func init() {
	externals["internal/bytealg.MakeNoZero"] = func(fr *frame, a []value) value {
		n := fr.i.idx(a[0])
		out := make([]value, n)
		for j := range out {
			out[j] = uint8(0)
		}
		return out
	}
}

func init() {
	clone := func(fr *frame, a []value) value {
		it := a[0].(iface)
		return iface{t: it.t, v: deepCopy(it.v)}
	}
	externals["github.com/gogo/protobuf/proto.Clone"] = clone
	externals["github.com/golang/protobuf/proto.Clone"] = clone
}

func init() {
	externals["crypto/sha256.Sum256"] = func(fr *frame, a []value) value {
		raw, ok := concBytes(a[0])
		if !ok {
			// hash of symbolic/opaque input: 32 opaque cells; equal iff the inputs are equal (collision freedom assumed),
			// never equal to concrete bytes, not ordered
			src := append([]value{}, byteCells(a[0])...)
			out := make(array, 32)
			for j := range out {
				out[j] = boxCell{kind: "hash:sha256", v: tuple{src, j}}
			}
			fr.i.m.Stubs["sha256 of symbolic input as injective opaque token"]++
			return out
		}
		h := sha256.Sum256(raw)
		out := make(array, 32)
		for j := range out {
			out[j] = h[j]
		}
		return out
	}
}

// Sortable time text.  types.FormatTimeBytes / ParseTimeBytes are interpreted; below them,
// (time.Time).Format(SortableTimeFormat) and time.Parse(SortableTimeFormat, s) are replaced by an order-isomorphic
// 29-byte encoding of the WALL-CLOCK reading in the time's own location (8 bytes big-endian seconds since year 1 plus
// the zone offset, 4 bytes big-endian nanoseconds, 17 zero bytes) and its inverse (read as UTC, as time.Parse does for a
// layout without zone).  The real ASCII output ("2006-01-02T15:04:05.000000000") orders the same way for years
// 0..9999 (assumption, see DESIGN).  Other layouts fall through to the interpreted time package.
const sortableTimeFormat = "2006-01-02T15:04:05.000000000"

// zoneOffset returns the fixed offset (seconds east of UTC) of a *time.Location value, 0 for UTC/nil.
func (i *interpreter) zoneOffset(loc value) int64 {
	p, ok := loc.(*value)
	if !ok || p == nil {
		return 0
	}
	if g := i.prog.ImportedPackage("time").Var("utcLoc"); g != nil {
		if gp, ok := i.globals[g]; ok && gp == p {
			return 0
		}
	}
	st, ok := (*p).(structure)
	if !ok || len(st) < 2 {
		unsup("time zone of an unknown Location value")
	}
	zones, _ := st[1].([]value)
	if len(zones) != 1 {
		unsup("time.Format in a location that is not UTC or a fixed zone")
	}
	z := zones[0].(structure)
	return asInt64(z[1])
}

func init() {
	externals["(time.Time).Format"] = func(fr *frame, a []value) value {
		if l, ok := a[1].(string); !ok || l != sortableTimeFormat {
			return fallthroughSSA{}
		}
		i := fr.i
		C := i.m.C
		st := a[0].(structure)
		wall, ext := st[0], st[1]
		off := i.zoneOffset(st[2])
		// no monotonic reading expected
		wt := i.term(wall)
		if !(wt.Hi != nil && wt.Hi.Cmp(pow2(63)) < 0) {
			if i.decide(C.Le(C.Const(pow2(63)), wt)) {
				unsup("FormatTimeBytes of a time with a monotonic clock reading")
			}
		}
		nsec := C.Mod(wt, C.Const(pow2(30)))
		sec := C.Add(i.term(ext), C.ConstI(off))
		if sec.Lo == nil || sec.Lo.Sign() < 0 {
			// clamp: times before year 1 are not produced by the harnesses
			if i.decide(C.Lt(sec, C.ConstI(0))) {
				unsup("FormatTimeBytes of a time before year 1")
			}
		}
		out := make([]value, 29)
		for j := 0; j < 8; j++ {
			out[j] = i.wrapK(C.Div(sec, C.Const(pow2(8*(7-j)))), types.Uint8)
		}
		for j := 0; j < 4; j++ {
			out[8+j] = i.wrapK(C.Div(nsec, C.Const(pow2(8*(3-j)))), types.Uint8)
		}
		for j := 12; j < 29; j++ {
			out[j] = uint8(0)
		}
		return mkStr(out)
	}
	externals["time.Parse"] = func(fr *frame, a []value) value {
		if l, ok := a[0].(string); !ok || l != sortableTimeFormat {
			return fallthroughSSA{}
		}
		i := fr.i
		C := i.m.C
		bs := strCells(a[1])
		tt := fr.i.prog.ImportedPackage("time").Type("Time").Type()
		if len(bs) != 29 {
			return tuple{zero(tt), i.mkError("parsing time: bad length")}
		}
		sec := C.ConstI(0)
		for j := 0; j < 8; j++ {
			sec = C.Add(C.Mul(sec, C.ConstI(256)), i.term(bs[j]))
		}
		nsec := C.ConstI(0)
		for j := 0; j < 4; j++ {
			nsec = C.Add(C.Mul(nsec, C.ConstI(256)), i.term(bs[8+j]))
		}
		st := zero(tt).(structure)
		st[0] = i.wrapK(nsec, types.Uint64)
		st[1] = i.wrapK(sec, types.Int64)
		st[2] = (*value)(nil)
		return tuple{st, iface{}}
	}
}

func init() {
	externals["(*"+RepoMod+"/types.sdkError).ABCILog"] = func(fr *frame, a []value) value { return "<abci log>" }
	externals["(*"+RepoMod+"/types.sdkError).Error"] = func(fr *frame, a []value) value { return "<sdk error>" }
}

// ---- signatures as a perfect signature scheme (unforgeability + correctness assumed) ----
// Sign(priv,msg) returns a one-cell token (pub(priv), msg); Verify(pub,msg,sig) <=> sig is a token for exactly (pub,msg).
func init() {
	const tmEd = "github.com/tendermint/tendermint/crypto/ed25519."
	const tmSecp = "github.com/tendermint/tendermint/crypto/secp256k1."
	mkSign := func(scheme string, pubOf func(priv array) []value) externalFn {
		return func(fr *frame, a []value) value {
			priv := a[0].(array)
			msg := append([]value{}, byteCells(a[1])...)
			tok := boxCell{kind: "sig:" + scheme, v: tuple{array(pubOf(priv)), msg}}
			return tuple{[]value{tok}, iface{}}
		}
	}
	mkVerify := func(scheme string) externalFn {
		return func(fr *frame, a []value) value {
			pub := a[0].(array)
			msg := byteCells(a[1])
			sig := byteCells(a[2])
			if len(sig) != 1 {
				return false // raw bytes are never a valid signature (unforgeability)
			}
			tok, ok := sig[0].(boxCell)
			if !ok || tok.kind != "sig:"+scheme {
				return false
			}
			tp := tok.v.(tuple)
			C := fr.i.m.C
			eqPub := fr.i.deepEq(tp[0], pub)
			_, eqMsg := fr.i.cmpCells(tp[1].([]value), msg)
			return fr.i.boolv(C.And(eqPub, eqMsg))
		}
	}
	externals["("+tmEd+"PrivKeyEd25519).Sign"] = mkSign("ed25519", func(priv array) []value { return append([]value{}, priv[32:]...) })
	externals["("+tmEd+"PubKeyEd25519).VerifyBytes"] = mkVerify("ed25519")
	externals["("+tmSecp+"PubKeySecp256k1).VerifyBytes"] = mkVerify("secp256k1")

	// canonical JSON: identity on codec tokens, native on concrete bytes
	sortJSON := func(fr *frame, a []value) (value, string) {
		if raw, ok := concBytes(a[0]); ok {
			var c interface{}
			if err := json.Unmarshal(raw, &c); err != nil {
				return nil, err.Error()
			}
			js, err := json.Marshal(c)
			if err != nil {
				return nil, err.Error()
			}
			return bytesVal(js), ""
		}
		// a token written by encoding/json: its 64-bit integers are JSON numbers and pass through float64
		if bs, ok := a[0].([]value); ok && len(bs) == 1 {
			if box, ok := bs[0].(boxCell); ok && box.kind == "gojson" {
				changed := false
				nv := fr.i.jsonFloatRound(box.t, box.v, &changed)
				if changed {
					fr.i.m.Stubs["types.SortJSON: float64 rounding of encoding/json integer numbers"]++
					return []value{boxCell{kind: "gojson", t: box.t, v: nv}}, ""
				}
			}
		}
		return a[0], ""
	}
	externals[RepoMod+"/types.SortJSON"] = func(fr *frame, a []value) value {
		v, e := sortJSON(fr, a)
		if e != "" {
			return tuple{[]value(nil), fr.i.mkError(e)}
		}
		return tuple{v, iface{}}
	}
	externals[RepoMod+"/types.MustSortJSON"] = func(fr *frame, a []value) value {
		v, e := sortJSON(fr, a)
		if e != "" {
			panic(targetPanic{fr.i.mkError(e)})
		}
		return v
	}

	// the node's tx index (ante handler replay protection): the answer is a symbolic boolean
	externals["(*github.com/tendermint/tendermint/node.Node).Config"] = func(fr *frame, a []value) value {
		cfgPkg := fr.i.prog.ImportedPackage("github.com/tendermint/tendermint/config")
		ct := cfgPkg.Type("Config").Type()
		cv := zero(ct)
		st := ct.Underlying().(*types.Struct)
		for j := 0; j < st.NumFields(); j++ {
			if st.Field(j).Name() == "RPC" {
				rv := zero(st.Field(j).Type().Underlying().(*types.Pointer).Elem())
				cv.(structure)[j] = &rv
			}
		}
		return &cv
	}
	externals["github.com/tendermint/tendermint/rpc/client.NewHTTP"] = func(fr *frame, a []value) value {
		t := fr.i.prog.ImportedPackage("github.com/tendermint/tendermint/rpc/client").Type("HTTP").Type()
		v := zero(t)
		return &v
	}
	txFn := func(fr *frame, a []value) value {
		m := fr.i.m
		var has value
		if v, ok := m.Ghost["txindex.contains"]; ok {
			has = v
		} else {
			has = symBool{m.C.BVar(m.uniq("txindex.contains"))}
		}
		rt := fr.i.prog.ImportedPackage("github.com/tendermint/tendermint/rpc/core/types").Type("ResultTx").Type()
		if fr.i.condBool(has) {
			v := zero(rt)
			return tuple{&v, iface{}}
		}
		return tuple{(*value)(nil), fr.i.mkError("tx not found")}
	}
	externals["(*github.com/tendermint/tendermint/rpc/client.HTTP).Tx"] = txFn
	externals["(*github.com/tendermint/tendermint/rpc/client.baseRPCClient).Tx"] = txFn
}

func init() {
	externals["encoding/hex.EncodeToString"] = func(fr *frame, a []value) value {
		if raw, ok := concBytes(a[0]); ok {
			return hex.EncodeToString(raw)
		}
		// text of symbolic/opaque bytes: a one-cell text token that DecodeString turns back into the same bytes
		fr.i.m.Stubs["hex text of symbolic/opaque bytes as a reversible text token"]++
		return symStr{[]value{boxCell{kind: "hextext", v: append([]value{}, byteCells(a[0])...)}}}
	}
	externals["encoding/hex.DecodeString"] = func(fr *frame, a []value) value {
		if s, ok := a[0].(symStr); ok && len(s.cells) == 1 {
			if tok, ok := s.cells[0].(boxCell); ok && tok.kind == "hextext" {
				return tuple{append([]value{}, tok.v.([]value)...), iface{}}
			}
		}
		return fallthroughSSA{}
	}
}

func init() {
	externals["(*encoding/base64.Encoding).EncodeToString"] = func(fr *frame, a []value) value {
		if _, ok := concBytes(a[1]); ok {
			return fallthroughSSA{}
		}
		fr.i.m.Stubs["base64 text of symbolic/opaque bytes as a reversible text token"]++
		return symStr{[]value{boxCell{kind: "b64text", v: append([]value{}, byteCells(a[1])...)}}}
	}
	externals["(*encoding/base64.Encoding).DecodeString"] = func(fr *frame, a []value) value {
		if s, ok := a[1].(symStr); ok && len(s.cells) == 1 {
			if tok, ok := s.cells[0].(boxCell); ok && tok.kind == "b64text" {
				return tuple{append([]value{}, tok.v.([]value)...), iface{}}
			}
		}
		return fallthroughSSA{}
	}
}

func init() {
	externals["("+RepoMod+"/types.ABCIMessageLogs).String"] = func(fr *frame, a []value) value { return "<abci message logs>" }
}

func init() {
	externals["runtime.Callers"] = func(fr *frame, a []value) value { return 0 }
	externals["runtime.Caller"] = func(fr *frame, a []value) value { return tuple{uintptr(0), "", 0, false} }
}

// hash.Hash objects of crypto/sha256: the digest state is kept in a side table keyed by the object pointer.
func init() {
	externals["crypto/sha256.New"] = func(fr *frame, a []value) value {
		pkg := fr.i.prog.ImportedPackage("crypto/sha256")
		dt := pkg.Type("digest").Type()
		v := zero(dt)
		p := &v
		fr.i.digests[p] = []value{}
		return iface{t: types.NewPointer(dt), v: p}
	}
	externals["(*crypto/sha256.digest).Write"] = func(fr *frame, a []value) value {
		p := a[0].(*value)
		cells := byteCells(a[1])
		fr.i.digests[p] = append(fr.i.digests[p], cells...)
		return tuple{len(cells), iface{}}
	}
	externals["(*crypto/sha256.digest).Reset"] = func(fr *frame, a []value) value {
		fr.i.digests[a[0].(*value)] = []value{}
		return nil
	}
	externals["(*crypto/sha256.digest).Size"] = func(fr *frame, a []value) value { return 32 }
	externals["(*crypto/sha256.digest).BlockSize"] = func(fr *frame, a []value) value { return 64 }
	externals["(*crypto/sha256.digest).Sum"] = func(fr *frame, a []value) value {
		p := a[0].(*value)
		buf := fr.i.digests[p]
		sum := externals["crypto/sha256.Sum256"](fr, []value{append([]value{}, buf...)}).(array)
		var prefix []value
		if a[1] != nil {
			prefix = a[1].([]value)
		}
		return append(append([]value{}, prefix...), sum...)
	}
}

// merkle.SimpleHashFromMap: an injective, order-independent function of the map content (stub for tendermint's
// simple Merkle tree over sorted key/value hashes).
func init() {
	externals["github.com/tendermint/tendermint/crypto/merkle.SimpleHashFromMap"] = func(fr *frame, a []value) value {
		m := a[0].(*omap)
		type ent struct {
			k string
			v []value
		}
		var es []ent
		if m != nil {
			for j := range m.keys {
				if m.dead[j] {
					continue
				}
				k, ok := m.keys[j].(string)
				if !ok {
					unsup("SimpleHashFromMap with symbolic key")
				}
				v, _ := m.vals[j].([]value)
				es = append(es, ent{k, v})
			}
		}
		sort.Slice(es, func(x, y int) bool { return es[x].k < es[y].k })
		var buf []value
		for _, e := range es {
			buf = append(buf, uint8(len(e.k)))
			buf = append(buf, strCells(e.k)...)
			buf = append(buf, uint8(len(e.v)))
			buf = append(buf, e.v...)
		}
		fr.i.m.Stubs["merkle.SimpleHashFromMap as sha256 of the sorted (name,value) list"]++
		sum := externals["crypto/sha256.Sum256"](fr, []value{buf}).(array)
		return append([]value{}, sum...)
	}
}

// mintkey (crypto/keys/mintkey) runs as real code down to its primitives, which are modelled:
//   crypto.CRandBytes(n)          n deterministic pseudo-random concrete bytes (a per-path counter): the salt
//   scrypt.Key(pass, salt, ...)   klen bytes: sha256-based digest of (pass, salt) - concrete for concrete input, an
//                                 injective token otherwise (KDF determinism + collision freedom assumed)
//   EncryptAESGCM(key, plain)     a one-cell token (key, plain);  DecryptAESGCM(key', token) returns plain iff key' == key
//                                 (authenticated encryption assumed), raw bytes never decrypt
func init() {
	const mk = RepoMod + "/crypto/keys/mintkey."
	externals["github.com/tendermint/tendermint/crypto.CRandBytes"] = func(fr *frame, a []value) value {
		n := int(asInt64(a[0]))
		fr.i.randCtr++
		out := make([]value, n)
		for j := 0; j < n; j++ {
			out[j] = uint8((fr.i.randCtr*131 + j*29 + 7) % 251)
		}
		fr.i.m.Stubs["crypto.CRandBytes: deterministic concrete bytes (per-path counter)"]++
		return out
	}
	externals["golang.org/x/crypto/scrypt.Key"] = func(fr *frame, a []value) value {
		pass, salt := byteCells(a[0]), byteCells(a[1])
		klen := int(asInt64(a[5]))
		src := append(append(append([]value{}, pass...), uint8(0xff), uint8(len(pass)%251)), salt...)
		sum := externals["crypto/sha256.Sum256"](fr, []value{src}).(array)
		out := make([]value, klen)
		for j := 0; j < klen; j++ {
			out[j] = sum[j%32]
		}
		fr.i.m.Stubs["scrypt.Key as sha256(passphrase, salt) (deterministic, collision-free KDF assumed)"]++
		return tuple{out, iface{}}
	}
	externals[mk+"EncryptAESGCM"] = func(fr *frame, a []value) value {
		tok := boxCell{kind: "aesgcm", v: tuple{append([]value{}, byteCells(a[0])...), append([]value{}, byteCells(a[1])...)}}
		fr.i.m.Stubs["AES-GCM as an authenticated-encryption token (key, plaintext)"]++
		return tuple{[]value{tok}, iface{}}
	}
	externals[mk+"DecryptAESGCM"] = func(fr *frame, a []value) value {
		enc := byteCells(a[1])
		if len(enc) == 1 {
			if tok, ok := enc[0].(boxCell); ok && tok.kind == "aesgcm" {
				tp := tok.v.(tuple)
				_, eq := fr.i.cmpCells(tp[0].([]value), byteCells(a[0]))
				if fr.i.decide(eq) {
					return tuple{append([]value{}, tp[1].([]value)...), iface{}}
				}
			}
		}
		return tuple{[]value(nil), fr.i.mkError("cipher: message authentication failed")}
	}
}

// strings functions built on strings.Builder (unsafe): native on concrete arguments
func init() {
	concStr := func(v value) string {
		s, ok := v.(string)
		if !ok {
			unsup("strings function on a symbolic string")
		}
		return s
	}
	externals["strings.ToUpper"] = func(fr *frame, a []value) value { return strings.ToUpper(concStr(a[0])) }
	externals["strings.ToLower"] = func(fr *frame, a []value) value { return strings.ToLower(concStr(a[0])) }
	externals["strings.Repeat"] = func(fr *frame, a []value) value { return strings.Repeat(concStr(a[0]), int(fr.i.idx(a[1]))) }
	externals["strings.Join"] = func(fr *frame, a []value) value {
		var parts []string
		for _, p := range sliceArg(a[0]) {
			parts = append(parts, concStr(p))
		}
		return strings.Join(parts, concStr(a[1]))
	}
	externals["strings.ReplaceAll"] = func(fr *frame, a []value) value {
		return strings.ReplaceAll(concStr(a[0]), concStr(a[1]), concStr(a[2]))
	}
	externals["strings.Replace"] = func(fr *frame, a []value) value {
		return strings.Replace(concStr(a[0]), concStr(a[1]), concStr(a[2]), int(fr.i.idx(a[3])))
	}
}

// The on-disk key store: types.NewLevelDB(name, dir) opens one in-memory tm-db MemDB per (name, dir), kept for the whole
// path, so that crypto/keys.lazyKeybase (which reopens its database for every operation) runs; goleveldb itself and the
// file system are outside the model.  cmn.EnsureDir succeeds.
func init() {
	externals[RepoMod+"/types.NewLevelDB"] = func(fr *frame, a []value) value {
		key := strArg(a[0]) + "|" + strArg(a[1])
		if fr.i.memDBs == nil {
			fr.i.memDBs = map[string]value{}
		}
		if db, ok := fr.i.memDBs[key]; ok {
			return tuple{db, iface{}}
		}
		pkg := fr.i.prog.ImportedPackage("github.com/tendermint/tm-db")
		if pkg == nil {
			unsup("tm-db not loaded")
		}
		fn := pkg.Func("NewMemDB")
		p := call(fr.i, fr, token.NoPos, fn, nil)
		db := value(iface{t: fn.Signature.Results().At(0).Type(), v: p})
		fr.i.memDBs[key] = db
		fr.i.m.Stubs["types.NewLevelDB: one in-memory MemDB per (name, dir) for the whole path"]++
		return tuple{db, iface{}}
	}
	externals["github.com/tendermint/tendermint/libs/common.EnsureDir"] = func(fr *frame, a []value) value { return iface{} }
}
