package engine

// Fingerprints of closed opaque tokens.
//
// A digest token (sha256 of input that is not plain concrete bytes) and a codec token are "closed" when nothing symbolic
// occurs anywhere inside them.  Two closed tokens are equal iff their contents are structurally equal, so equality is
// decided by comparing a real sha256 fingerprint of the canonical rendering of the content (cost linear in the content,
// memoised per digest source) instead of building a term over every nested cell.  Closed digest tokens are also given a
// fixed total order (the order of their fingerprints): the model's digest values are arbitrary but fixed and
// collision-free, as the real ones are - code whose behaviour depended on the numeric order of particular sha256 values
// is explored under that one order only (stub "digest order = fingerprint order", counted in the evidence).

import (
	"bytes"
	"crypto/sha256"
	"fmt"
	gohash "hash"
	"math/big"
	"os"
)

type fpEntry struct {
	fp     [32]byte
	closed bool
}

func (i *interpreter) fpSource(src []value) ([32]byte, bool) {
	if len(src) == 0 {
		return sha256.Sum256([]byte("empty")), true
	}
	key := &src[0]
	if e, ok := i.fpMemo[key]; ok {
		return e.fp, e.closed
	}
	h := sha256.New()
	closed := i.fpCells(h, src)
	var e fpEntry
	e.closed = closed
	if closed {
		copy(e.fp[:], h.Sum(nil))
	}
	if i.fpMemo == nil {
		i.fpMemo = map[*value]fpEntry{}
	}
	i.fpMemo[key] = e
	return e.fp, e.closed
}

func (i *interpreter) fpCells(h gohash.Hash, cells []value) bool {
	fmt.Fprintf(h, "C%d:", len(cells))
	for _, c := range cells {
		switch c := c.(type) {
		case uint8:
			h.Write([]byte{'b', c})
		case boxCell:
			if !i.fpBox(h, c) {
				return false
			}
		default:
			if os.Getenv("GOSYM_TRACE_FP") != "" {
				fmt.Fprintf(os.Stderr, "fp: not closed cell: %T %v\n", c, c)
			}
			return false
		}
	}
	return true
}

func (i *interpreter) fpBox(h gohash.Hash, b boxCell) bool {
	if b.kind == "hash:sha256" {
		t := b.v.(tuple)
		fp, ok := i.fpSource(t[0].([]value))
		if !ok {
			return false
		}
		fmt.Fprintf(h, "H%d:", t[1].(int))
		h.Write(fp[:])
		return true
	}
	ts := ""
	if b.t != nil {
		ts = b.t.String()
	}
	fmt.Fprintf(h, "B%s|%s|", b.kind, ts)
	return i.fpValue(h, b.v, 0)
}

// fpValue renders v canonically: values that deepEq calls equal render the same, different ones differently.
func (i *interpreter) fpValue(h gohash.Hash, v value, depth int) bool {
	if depth > 64 {
		return false
	}
	switch v := v.(type) {
	case nil:
		h.Write([]byte("nil;"))
		return true
	case structure:
		if len(v) == 2 {
			if _, isBig := v[1].(bigv); isBig {
				b := v[1].(bigv)
				if b.c == nil || b.t != nil {
					return false
				}
				fmt.Fprintf(h, "I%s;", b.c.String())
				return true
			}
		}
		fmt.Fprintf(h, "S%d{", len(v))
		for _, f := range v {
			if !i.fpValue(h, f, depth+1) {
				return false
			}
		}
		h.Write([]byte("}"))
		return true
	case bigv:
		if v.c == nil || v.t != nil {
			return false
		}
		fmt.Fprintf(h, "I%s;", v.c.String())
		return true
	case array:
		fmt.Fprintf(h, "A%d[", len(v))
		for _, f := range v {
			if !i.fpValue(h, f, depth+1) {
				return false
			}
		}
		h.Write([]byte("]"))
		return true
	case []value:
		fmt.Fprintf(h, "L%d[", len(v))
		for _, f := range v {
			if !i.fpValue(h, f, depth+1) {
				return false
			}
		}
		h.Write([]byte("]"))
		return true
	case tuple:
		fmt.Fprintf(h, "T%d(", len(v))
		for _, f := range v {
			if !i.fpValue(h, f, depth+1) {
				return false
			}
		}
		h.Write([]byte(")"))
		return true
	case *value:
		if v == nil {
			h.Write([]byte("P0;"))
			return true
		}
		h.Write([]byte("P1:"))
		return i.fpValue(h, *v, depth+1)
	case iface:
		if v.t == nil {
			h.Write([]byte("F0;"))
			return true
		}
		fmt.Fprintf(h, "F%s:", v.t.String())
		return i.fpValue(h, v.v, depth+1)
	case boxCell:
		return i.fpBox(h, v)
	case string:
		fmt.Fprintf(h, "z%d:C%d:", len(v), len(v))
		for j := 0; j < len(v); j++ {
			h.Write([]byte{'b', v[j]})
		}
		return true
	case symStr:
		// closed only if every cell is (a concrete byte was kept as symStr because of a token cell)
		fmt.Fprintf(h, "z%d:", len(v.cells))
		return i.fpCells(h, v.cells)
	case bool:
		if v {
			h.Write([]byte("t;"))
		} else {
			h.Write([]byte("f;"))
		}
		return true
	case float32, float64:
		fmt.Fprintf(h, "g%v;", v)
		return true
	}
	if _, ok := kindOf(v); ok {
		if c := concreteBig(v); c != nil {
			fmt.Fprintf(h, "n%s;", c.String())
			return true
		}
	}
	if os.Getenv("GOSYM_TRACE_FP") != "" {
		fmt.Fprintf(os.Stderr, "fp: not closed: %T %v\n", v, v)
	}
	return false
}

// closedBoxFP: fingerprint of a closed token (ok=false when something symbolic occurs inside it).
func (i *interpreter) closedBoxFP(b boxCell) ([32]byte, bool) {
	if b.kind == "hash:sha256" {
		t := b.v.(tuple)
		fp, ok := i.fpSource(t[0].([]value))
		if !ok {
			return fp, false
		}
		h := sha256.New()
		fmt.Fprintf(h, "H%d:", t[1].(int))
		h.Write(fp[:])
		var out [32]byte
		copy(out[:], h.Sum(nil))
		return out, true
	}
	h := sha256.New()
	if !i.fpBox(h, b) {
		return [32]byte{}, false
	}
	var out [32]byte
	copy(out[:], h.Sum(nil))
	return out, true
}

// digestOrder: for two closed digest cells with different content, whether a sorts before b.
func (i *interpreter) digestOrder(a, b boxCell) (less bool, ok bool) {
	if a.kind != "hash:sha256" || b.kind != "hash:sha256" {
		return false, false
	}
	ta, tb := a.v.(tuple), b.v.(tuple)
	if ta[1].(int) != tb[1].(int) {
		return false, false
	}
	fa, oka := i.fpSource(ta[0].([]value))
	fb, okb := i.fpSource(tb[0].([]value))
	if !oka || !okb {
		return false, false
	}
	c := bytes.Compare(fa[:], fb[:])
	if c == 0 {
		return false, false
	}
	i.m.Stubs["order of closed digest tokens = order of their fingerprints (arbitrary, fixed, collision-free)"]++
	return c < 0, true
}

// digestBytes: for comparisons, the cells of closed digest tokens stand for the bytes of a pseudo-digest (the sha256
// of the canonical rendering of their source): equal sources give equal bytes, different sources different bytes, and
// the order against each other and against real digests is fixed.
func (i *interpreter) digestBytes(cells []value) []value {
	var out []value
	for j, c := range cells {
		b, ok := c.(boxCell)
		if !ok || b.kind != "hash:sha256" {
			continue
		}
		t := b.v.(tuple)
		fp, closed := i.fpSource(t[0].([]value))
		if !closed {
			continue
		}
		if out == nil {
			out = append([]value{}, cells...)
			i.m.Stubs["closed digest tokens compared as pseudo-digests (sha256 of the canonical rendering of their source: arbitrary, fixed, collision-free order)"]++
		}
		d := sha256.Sum256(append([]byte("pseudo-digest:"), fp[:]...))
		out[j] = d[t[1].(int)]
	}
	if out == nil {
		return cells
	}
	return out
}

var _ = big.NewInt
