package engine

// Insertion-ordered map used for every Go map in the target program.
// Deterministic iteration (needed for decision-prefix re-execution) and
// support for keys with symbolic parts (lookup forks on key equality).

import (
	"go/types"
)

type omap struct {
	keyType types.Type
	keys    []value
	vals    []value
	dead    []bool
	idx     map[value]int // concrete basic keys only
	nslow   int           // live entries not in idx
	n       int
}

func makeMap(kt types.Type, reserve int64) value {
	return &omap{keyType: kt, idx: map[value]int{}}
}

func fastKey(k value) bool {
	switch k.(type) {
	case bool, int, int8, int16, int32, int64, uint, uint8, uint16, uint32, uint64, uintptr, string, *value, float32, float64:
		return true
	}
	return false
}

// find returns the index of key k or -1. May fork on symbolic equality.
func (m *omap) find(i *interpreter, k value) int {
	if m == nil {
		return -1
	}
	if fastKey(k) {
		if j, ok := m.idx[k]; ok {
			return j
		}
		if m.nslow == 0 {
			return -1
		}
	}
	for j := range m.keys {
		if m.dead[j] {
			continue
		}
		if fastKey(k) && fastKey(m.keys[j]) {
			continue // would have been found through idx
		}
		if i.condBool(i.eqv(m.keyType, m.keys[j], k)) {
			return j
		}
	}
	return -1
}

func (m *omap) lookup(i *interpreter, k value) (value, bool) {
	j := m.find(i, k)
	if j < 0 {
		return nil, false
	}
	return m.vals[j], true
}

func (m *omap) insert(i *interpreter, k, v value) {
	if m == nil {
		panic(runtimeErr("assignment to entry in nil map"))
	}
	if j := m.find(i, k); j >= 0 {
		m.vals[j] = v
		return
	}
	m.keys = append(m.keys, k)
	m.vals = append(m.vals, v)
	m.dead = append(m.dead, false)
	if fastKey(k) {
		m.idx[k] = len(m.keys) - 1
	} else {
		m.nslow++
	}
	m.n++
}

func (m *omap) delete(i *interpreter, k value) {
	if m == nil {
		return
	}
	j := m.find(i, k)
	if j < 0 {
		return
	}
	m.dead[j] = true
	m.vals[j] = nil
	if fastKey(m.keys[j]) {
		delete(m.idx, m.keys[j])
	} else {
		m.nslow--
	}
	m.n--
}

func (m *omap) len() int {
	if m == nil {
		return 0
	}
	return m.n
}

type omapIter struct {
	m   *omap
	pos int
}

func (it *omapIter) next() tuple {
	if it.m != nil {
		for it.pos < len(it.m.keys) {
			j := it.pos
			it.pos++
			if !it.m.dead[j] {
				return tuple{true, cloneAgg(it.m.keys[j]), cloneAgg(it.m.vals[j])}
			}
		}
	}
	return tuple{false, nil, nil}
}
