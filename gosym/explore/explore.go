// Package explore drives the engine over all paths of a harness with a pool of workers.
package explore

import (
	"fmt"
	"os"
	"sort"
	"sync"
	"time"

	"golang.org/x/tools/go/ssa"

	"gosym/engine"
	"gosym/smt"
)

type Opts struct {
	Workers     int
	MaxPaths    int
	Deadline    time.Duration
	StepBudget  int64
	SolverMs    int
	FastMs      int
	CrossCheck  bool // run assertion queries on z3-new and cvc5 as well
	Known       map[string]bool
	Thorough    bool
	SampleEvery int // keep a path model every N ok-paths for native validation
	MaxSamples  int
	Verbose     bool
}

type AssertStat struct {
	Checked        int
	Discharged     int
	ConcreteOK     int
	Violated       int
	Unknown        int
	HuntUnknown    int
	CrossConfirmed int // thorough tier: discharged obligations re-proved by at least one other solver
	CrossUnknown   int // thorough tier: discharged obligations no other solver could re-prove in time
	Ms             float64
}

type Violation struct {
	AssertID string
	Why      string
	Model    smt.Model
	Choices  map[string]int
	Prefix   []int
}

type Sample struct {
	Model   smt.Model
	Choices map[string]int
	Reached []string
}

type Summary struct {
	Harness     string
	Paths       int
	ByStatus    map[string]int
	Asserts     map[string]*AssertStat
	Violations  []Violation
	Unsupported map[string]int
	Undecided   map[string]int
	EngineErrs  []string
	Reached     map[string]int
	Decisions   int
	Queries     int
	SolverSec   float64
	WallSec     float64
	Steps       int64
	Funcs       map[string]int
	Stubs       map[string]int
	Samples     []Sample
	Truncated   string
	Unconfirmed int
	MaxVars     int
}

func Run(P *engine.Program, fn *ssa.Function, o Opts) *Summary {
	if o.Workers <= 0 {
		o.Workers = 16
	}
	if o.MaxPaths <= 0 {
		o.MaxPaths = 50000
	}
	if o.SolverMs <= 0 {
		o.SolverMs = 20000
	}
	if o.FastMs <= 0 {
		o.FastMs = 1500
	}
	if o.SampleEvery <= 0 {
		o.SampleEvery = 7
	}
	if o.MaxSamples <= 0 {
		o.MaxSamples = 12
	}
	s := &Summary{Harness: fn.Name(), ByStatus: map[string]int{}, Asserts: map[string]*AssertStat{},
		Unsupported: map[string]int{}, Undecided: map[string]int{}, Reached: map[string]int{},
		Funcs: map[string]int{}, Stubs: map[string]int{}}
	t0 := time.Now()
	var mu sync.Mutex
	cond := sync.NewCond(&mu)
	queue := [][]int{{}}
	active := 0
	started := 0
	stop := false
	okPaths := 0

	worker := func(id int) {
		proc, err := smt.StartProc("z3", o.FastMs)
		if err != nil {
			mu.Lock()
			s.EngineErrs = append(s.EngineErrs, "cannot start z3: "+err.Error())
			stop = true
			cond.Broadcast()
			mu.Unlock()
			return
		}
		defer proc.Close()
		var mirrors []*smt.Proc
		if o.CrossCheck {
			for _, n := range []string{"z3-new", "cvc5"} {
				mp, err := smt.StartProc(n, o.SolverMs)
				if err == nil {
					mirrors = append(mirrors, mp)
					defer mp.Close()
				}
			}
		}
		for {
			mu.Lock()
			for len(queue) == 0 && active > 0 && !stop {
				cond.Wait()
			}
			if stop || (len(queue) == 0 && active == 0) {
				cond.Broadcast()
				mu.Unlock()
				return
			}
			// DFS: take the most recently added prefix
			prefix := queue[len(queue)-1]
			queue = queue[:len(queue)-1]
			active++
			started++
			n := started
			mu.Unlock()

			want := false
			if n%o.SampleEvery == 1 {
				want = true
			}
			res := P.RunPath(fn, prefix, proc, mirrors, engine.RunOpts{StepBudget: o.StepBudget, CrossCheck: o.CrossCheck,
				Known: o.Known, WantModel: want, Thorough: o.Thorough, SlowMs: o.SolverMs})

			mu.Lock()
			active--
			s.Paths++
			s.ByStatus[res.Status]++
			s.Decisions += len(res.Trace)
			s.Queries += res.Queries
			s.SolverSec += float64(res.SolverNs) / 1e9
			s.Steps += res.Steps
			if res.NVars > s.MaxVars {
				s.MaxVars = res.NVars
			}
			if res.Unconfirmed {
				s.Unconfirmed++
			}
			for k, v := range res.Funcs {
				s.Funcs[k] += v
			}
			for k, v := range res.Stubs {
				s.Stubs[k] += v
			}
			for _, r := range res.Reached {
				s.Reached[r]++
			}
			for _, a := range res.Asserts {
				st := s.Asserts[a.ID]
				if st == nil {
					st = &AssertStat{}
					s.Asserts[a.ID] = st
				}
				st.Checked++
				st.Ms += a.Ms
				switch a.Result {
				case "discharged":
					st.Discharged++
					if len(a.Cross) > 0 {
						ok := false
						for _, r := range a.Cross {
							if r == "unsat" {
								ok = true
							}
						}
						if ok {
							st.CrossConfirmed++
						} else {
							st.CrossUnknown++
						}
					}
				case "concrete-ok":
					st.ConcreteOK++
				case "violated":
					st.Violated++
					if len(s.Violations) < 200 {
						s.Violations = append(s.Violations, Violation{AssertID: a.ID, Why: a.Why, Model: a.Model, Choices: res.Choices, Prefix: res.Prefix})
					}
				case "hunt-unknown":
					st.HuntUnknown++
				default:
					st.Unknown++
					s.Undecided[fmt.Sprintf("%s: %s choices=%v", a.ID, a.Why, res.Choices)]++
				}
			}
			switch res.Status {
			case "ok":
				okPaths++
				if res.Model != nil && len(s.Samples) < o.MaxSamples {
					s.Samples = append(s.Samples, Sample{Model: res.Model, Choices: res.Choices, Reached: res.Reached})
				}
			case "unsupported":
				s.Unsupported[res.Detail]++
			case "undecided":
				s.Undecided[fmt.Sprintf("%s choices=%v", res.Detail, res.Choices)]++
			case "engine-error":
				if len(s.EngineErrs) < 5 {
					s.EngineErrs = append(s.EngineErrs, res.Detail)
				}
			}
			if o.Verbose {
				fmt.Fprintf(os.Stderr, "[w%d] path %d %v -> %s %s (steps %d, q %d)\n", id, n, res.Prefix, res.Status, trunc(res.Detail, 300), res.Steps, res.Queries)
			}
			queue = append(queue, res.NewPrefixes...)
			if s.Paths+len(queue) > o.MaxPaths && s.Truncated == "" {
				s.Truncated = fmt.Sprintf("path bound %d exceeded", o.MaxPaths)
				stop = true
			}
			if o.Deadline > 0 && time.Since(t0) > o.Deadline && s.Truncated == "" && (len(queue) > 0 || active > 0) {
				s.Truncated = fmt.Sprintf("time bound %s exceeded with %d paths pending", o.Deadline, len(queue)+active)
				stop = true
			}
			cond.Broadcast()
			mu.Unlock()
		}
	}
	var wg sync.WaitGroup
	for w := 0; w < o.Workers; w++ {
		wg.Add(1)
		go func(id int) { defer wg.Done(); worker(id) }(w)
	}
	wg.Wait()
	s.WallSec = time.Since(t0).Seconds()
	_ = okPaths
	return s
}

func trunc(s string, n int) string {
	if len(s) > n {
		return s[:n] + "…"
	}
	return s
}

func SortedKeys(m map[string]int) []string {
	ks := make([]string, 0, len(m))
	for k := range m {
		ks = append(ks, k)
	}
	sort.Strings(ks)
	return ks
}
