// Package smt: hash-consed Int/Bool term DAG with a light simplifier,
// interval analysis, evaluation and an SMT-LIB2 printer.
//
// Go machine integers are encoded as mathematical Ints with explicit
// mod-2^k wrapping (done by the engine, using the intervals kept here to
// elide the wrap when the value provably fits).
package smt

import (
	"fmt"
	"math/big"
	"sort"
	"strings"
)

type Kind uint8

const (
	KConst Kind = iota // Int constant
	KVar               // Int variable
	KTrue
	KFalse
	KBVar // Bool variable
	KAdd  // n-ary
	KMul  // binary
	KNeg
	KDiv // SMT-LIB div (floor for positive divisor, Euclidean in general)
	KMod // SMT-LIB mod (result >= 0)
	KAbs
	KIte // Int or Bool
	KEq  // Int = Int
	KLt
	KLe
	KAnd // n-ary
	KOr  // n-ary
	KNot
	KIff    // Bool = Bool
	KBitLen // bit length of |x| ; only legal under comparison with a constant (rewritten there)
	KUF     // uninterpreted function application (Int-valued), Name = function name
)

type Term struct {
	K      Kind
	Args   []*Term
	Val    *big.Int // KConst
	Name   string   // KVar, KBVar, KUF
	ID     int
	Bool   bool
	Lo, Hi *big.Int // interval for Int terms, nil = unbounded
}

// Ctx owns the hash-cons table; one per explored path.
type Ctx struct {
	tab    map[string]*Term
	next   int
	Vars   []*Term // declaration order
	UFs    map[string]int // name -> arity
	tt, ff *Term
	// Unsupported is set when a term was built that cannot be printed (e.g. stray BitLen)
}

func NewCtx() *Ctx {
	c := &Ctx{tab: map[string]*Term{}, UFs: map[string]int{}}
	c.tt = c.intern(&Term{K: KTrue, Bool: true})
	c.ff = c.intern(&Term{K: KFalse, Bool: true})
	return c
}

func (c *Ctx) key(t *Term) string {
	var sb strings.Builder
	fmt.Fprintf(&sb, "%d", t.K)
	switch t.K {
	case KConst:
		sb.WriteByte(':')
		sb.WriteString(t.Val.String())
	case KVar, KBVar, KUF:
		sb.WriteByte(':')
		sb.WriteString(t.Name)
	}
	for _, a := range t.Args {
		fmt.Fprintf(&sb, ",%d", a.ID)
	}
	return sb.String()
}

func (c *Ctx) intern(t *Term) *Term {
	k := c.key(t)
	if o, ok := c.tab[k]; ok {
		// bounds only ever tighten along a path (they are implied by the path condition)
		if !o.Bool && o.K != KConst {
			tighten(o, t.Lo, t.Hi)
		}
		return o
	}
	c.next++
	t.ID = c.next
	c.tab[k] = t
	return t
}

func (c *Ctx) True() *Term  { return c.tt }
func (c *Ctx) False() *Term { return c.ff }
func (c *Ctx) BoolConst(b bool) *Term {
	if b {
		return c.tt
	}
	return c.ff
}

func (c *Ctx) Const(v *big.Int) *Term {
	v = new(big.Int).Set(v)
	return c.intern(&Term{K: KConst, Val: v, Lo: v, Hi: v})
}
func (c *Ctx) ConstI(v int64) *Term { return c.Const(big.NewInt(v)) }

// Var declares (or returns) an Int variable with the given range (nil = unbounded).
func (c *Ctx) Var(name string, lo, hi *big.Int) *Term {
	t := &Term{K: KVar, Name: name, Lo: lo, Hi: hi}
	k := c.key(t)
	if o, ok := c.tab[k]; ok {
		return o
	}
	t = c.intern(t)
	c.Vars = append(c.Vars, t)
	return t
}

func (c *Ctx) BVar(name string) *Term {
	t := &Term{K: KBVar, Name: name, Bool: true}
	k := c.key(t)
	if o, ok := c.tab[k]; ok {
		return o
	}
	t = c.intern(t)
	c.Vars = append(c.Vars, t)
	return t
}

func (t *Term) IsConst() bool { return t.K == KConst }
func (t *Term) IsTrue() bool  { return t.K == KTrue }
func (t *Term) IsFalse() bool { return t.K == KFalse }

// ---------- interval helpers ----------

func tighten(t *Term, lo, hi *big.Int) {
	if lo != nil && (t.Lo == nil || lo.Cmp(t.Lo) > 0) {
		t.Lo = lo
	}
	if hi != nil && (t.Hi == nil || hi.Cmp(t.Hi) < 0) {
		t.Hi = hi
	}
}

// Refine records bounds implied by a condition that has just been added to the path condition.
func (c *Ctx) Refine(cond *Term) {
	one := big.NewInt(1)
	switch cond.K {
	case KAnd:
		for _, a := range cond.Args {
			c.Refine(a)
		}
	case KLt: // x < y
		x, y := cond.Args[0], cond.Args[1]
		if y.K == KConst {
			c.refineTerm(x, nil, new(big.Int).Sub(y.Val, one))
		} else if x.K == KConst {
			c.refineTerm(y, new(big.Int).Add(x.Val, one), nil)
		} else {
			if y.Hi != nil {
				c.refineTerm(x, nil, new(big.Int).Sub(y.Hi, one))
			}
			if x.Lo != nil {
				c.refineTerm(y, new(big.Int).Add(x.Lo, one), nil)
			}
		}
	case KLe:
		x, y := cond.Args[0], cond.Args[1]
		if y.K == KConst {
			c.refineTerm(x, nil, y.Val)
		} else if x.K == KConst {
			c.refineTerm(y, x.Val, nil)
		} else {
			if y.Hi != nil {
				c.refineTerm(x, nil, y.Hi)
			}
			if x.Lo != nil {
				c.refineTerm(y, x.Lo, nil)
			}
		}
	case KEq:
		x, y := cond.Args[0], cond.Args[1]
		if y.K == KConst {
			c.refineTerm(x, y.Val, y.Val)
		} else if x.K == KConst {
			c.refineTerm(y, x.Val, x.Val)
		}
	}
}

func (c *Ctx) refineTerm(t *Term, lo, hi *big.Int) {
	if t.K == KConst || t.Bool {
		return
	}
	tighten(t, lo, hi)
	switch t.K {
	case KNeg:
		c.refineTerm(t.Args[0], negB(hi), negB(lo))
	case KAdd:
		// x + k
		if len(t.Args) == 2 && t.Args[1].K == KConst {
			k := t.Args[1].Val
			var l, h *big.Int
			if lo != nil {
				l = new(big.Int).Sub(lo, k)
			}
			if hi != nil {
				h = new(big.Int).Sub(hi, k)
			}
			c.refineTerm(t.Args[0], l, h)
		}
	case KMul:
		// k * x with k > 0 constant
		if t.Args[0].K == KConst && t.Args[0].Val.Sign() != 0 {
			k := t.Args[0].Val
			var l, h *big.Int
			if k.Sign() < 0 {
				lo, hi = negB(hi), negB(lo)
				k = new(big.Int).Neg(k)
			}
			if lo != nil { // x >= ceil(lo/k)
				q, m := eDivMod(lo, k)
				if m.Sign() != 0 {
					q.Add(q, big.NewInt(1))
				}
				l = q
			}
			if hi != nil { // x <= floor(hi/k)
				h, _ = eDivMod(hi, k)
			}
			c.refineTerm(t.Args[1], l, h)
		}
	}
}

func addB(a, b *big.Int) *big.Int {
	if a == nil || b == nil {
		return nil
	}
	return new(big.Int).Add(a, b)
}
func negB(a *big.Int) *big.Int {
	if a == nil {
		return nil
	}
	return new(big.Int).Neg(a)
}
func minB(a, b *big.Int) *big.Int { // nil = -inf
	if a == nil || b == nil {
		return nil
	}
	if a.Cmp(b) <= 0 {
		return a
	}
	return b
}
func maxB(a, b *big.Int) *big.Int { // nil = +inf
	if a == nil || b == nil {
		return nil
	}
	if a.Cmp(b) >= 0 {
		return a
	}
	return b
}

// ---------- Int constructors ----------

func (c *Ctx) Add(xs ...*Term) *Term {
	var args []*Term
	k := new(big.Int)
	for _, x := range xs {
		if x.K == KAdd {
			for _, a := range x.Args {
				if a.K == KConst {
					k.Add(k, a.Val)
				} else {
					args = append(args, a)
				}
			}
		} else if x.K == KConst {
			k.Add(k, x.Val)
		} else {
			args = append(args, x)
		}
	}
	// cancel x + (-x)
	if len(args) >= 2 {
		out := args[:0:0]
		used := make([]bool, len(args))
		for i, a := range args {
			if used[i] {
				continue
			}
			cancelled := false
			for j := i + 1; j < len(args); j++ {
				if used[j] {
					continue
				}
				b := args[j]
				if (a.K == KNeg && a.Args[0] == b) || (b.K == KNeg && b.Args[0] == a) {
					used[j] = true
					cancelled = true
					break
				}
			}
			if !cancelled {
				out = append(out, a)
			}
		}
		args = out
	}
	if len(args) == 0 {
		return c.Const(k)
	}
	if k.Sign() != 0 {
		args = append(args, c.Const(k))
	}
	if len(args) == 1 {
		return args[0]
	}
	var lo, hi *big.Int = big.NewInt(0), big.NewInt(0)
	for _, a := range args {
		lo = addB(lo, a.Lo)
		hi = addB(hi, a.Hi)
	}
	return c.intern(&Term{K: KAdd, Args: args, Lo: lo, Hi: hi})
}

func (c *Ctx) Neg(x *Term) *Term {
	if x.K == KConst {
		return c.Const(new(big.Int).Neg(x.Val))
	}
	if x.K == KNeg {
		return x.Args[0]
	}
	return c.intern(&Term{K: KNeg, Args: []*Term{x}, Lo: negB(x.Hi), Hi: negB(x.Lo)})
}

func (c *Ctx) Sub(x, y *Term) *Term {
	if x == y {
		return c.ConstI(0)
	}
	return c.Add(x, c.Neg(y))
}

func mulIv(a, b *Term) (lo, hi *big.Int) {
	if a.Lo == nil || a.Hi == nil || b.Lo == nil || b.Hi == nil {
		// sign-based partial info
		if a.Lo != nil && a.Lo.Sign() >= 0 && b.Lo != nil && b.Lo.Sign() >= 0 {
			return new(big.Int).Mul(a.Lo, b.Lo), nil
		}
		return nil, nil
	}
	ps := []*big.Int{
		new(big.Int).Mul(a.Lo, b.Lo), new(big.Int).Mul(a.Lo, b.Hi),
		new(big.Int).Mul(a.Hi, b.Lo), new(big.Int).Mul(a.Hi, b.Hi)}
	lo, hi = ps[0], ps[0]
	for _, p := range ps[1:] {
		if p.Cmp(lo) < 0 {
			lo = p
		}
		if p.Cmp(hi) > 0 {
			hi = p
		}
	}
	return
}

func (c *Ctx) Mul(x, y *Term) *Term {
	if x.K == KConst && y.K == KConst {
		return c.Const(new(big.Int).Mul(x.Val, y.Val))
	}
	if y.K == KConst {
		x, y = y, x
	}
	if x.K == KConst {
		if x.Val.Sign() == 0 {
			return x
		}
		if x.Val.Cmp(big.NewInt(1)) == 0 {
			return y
		}
		if x.Val.Cmp(big.NewInt(-1)) == 0 {
			return c.Neg(y)
		}
		if y.K == KMul && y.Args[0].K == KConst {
			return c.Mul(c.Const(new(big.Int).Mul(x.Val, y.Args[0].Val)), y.Args[1])
		}
	} else if x.ID > y.ID {
		x, y = y, x
	}
	lo, hi := mulIv(x, y)
	return c.intern(&Term{K: KMul, Args: []*Term{x, y}, Lo: lo, Hi: hi})
}

// floorDiv / euclid mod on big
func eDivMod(a, b *big.Int) (q, m *big.Int) {
	q, m = new(big.Int), new(big.Int)
	q.DivMod(a, b, m) // Euclidean: m >= 0
	return
}

// Div is SMT-LIB div. Caller guarantees y != 0 on every feasible path.
func (c *Ctx) Div(x, y *Term) *Term {
	if y.K == KConst && y.Val.Sign() != 0 {
		if x.K == KConst {
			q, _ := eDivMod(x.Val, y.Val)
			return c.Const(q)
		}
		if y.Val.Cmp(big.NewInt(1)) == 0 {
			return x
		}
		if y.Val.Sign() > 0 {
			var lo, hi *big.Int
			if x.Lo != nil {
				lo, _ = eDivMod(x.Lo, y.Val)
			}
			if x.Hi != nil {
				hi, _ = eDivMod(x.Hi, y.Val)
			}
			if lo != nil && hi != nil && lo.Cmp(hi) == 0 {
				return c.Const(lo)
			}
			return c.intern(&Term{K: KDiv, Args: []*Term{x, y}, Lo: lo, Hi: hi})
		}
	}
	var lo, hi *big.Int
	// |x div y| <= |x| when |y|>=1
	if x.Lo != nil && x.Hi != nil {
		m := new(big.Int).Abs(x.Lo)
		if h := new(big.Int).Abs(x.Hi); h.Cmp(m) > 0 {
			m = h
		}
		m.Add(m, big.NewInt(1))
		lo, hi = new(big.Int).Neg(m), m
		if x.Lo.Sign() >= 0 && y.Lo != nil && y.Lo.Sign() > 0 {
			lo = big.NewInt(0)
			hi = x.Hi
		}
	}
	return c.intern(&Term{K: KDiv, Args: []*Term{x, y}, Lo: lo, Hi: hi})
}

func (c *Ctx) Mod(x, y *Term) *Term {
	if y.K == KConst && y.Val.Sign() != 0 {
		if x.K == KConst {
			_, m := eDivMod(x.Val, y.Val)
			return c.Const(m)
		}
		ay := new(big.Int).Abs(y.Val)
		if x.Lo != nil && x.Hi != nil && x.Lo.Sign() >= 0 && x.Hi.Cmp(ay) < 0 {
			return x
		}
		if ay.Cmp(big.NewInt(1)) == 0 {
			return c.ConstI(0)
		}
		// (a mod m) mod m
		if x.K == KMod && x.Args[1] == y {
			return x
		}
		return c.intern(&Term{K: KMod, Args: []*Term{x, y}, Lo: big.NewInt(0), Hi: new(big.Int).Sub(ay, big.NewInt(1))})
	}
	var hi *big.Int
	if y.Lo != nil && y.Hi != nil {
		m := new(big.Int).Abs(y.Lo)
		if h := new(big.Int).Abs(y.Hi); h.Cmp(m) > 0 {
			m = h
		}
		hi = m
	}
	return c.intern(&Term{K: KMod, Args: []*Term{x, y}, Lo: big.NewInt(0), Hi: hi})
}

func (c *Ctx) Abs(x *Term) *Term {
	if x.K == KConst {
		return c.Const(new(big.Int).Abs(x.Val))
	}
	if x.Lo != nil && x.Lo.Sign() >= 0 {
		return x
	}
	if x.Hi != nil && x.Hi.Sign() <= 0 {
		return c.Neg(x)
	}
	var hi *big.Int
	if x.Lo != nil && x.Hi != nil {
		hi = new(big.Int).Abs(x.Lo)
		if h := new(big.Int).Abs(x.Hi); h.Cmp(hi) > 0 {
			hi = h
		}
	}
	return c.intern(&Term{K: KAbs, Args: []*Term{x}, Lo: big.NewInt(0), Hi: hi})
}

func (c *Ctx) BitLen(x *Term) *Term {
	if x.K == KConst {
		return c.ConstI(int64(x.Val.BitLen()))
	}
	var hi *big.Int
	if x.Lo != nil && x.Hi != nil {
		m := new(big.Int).Abs(x.Lo)
		if h := new(big.Int).Abs(x.Hi); h.Cmp(m) > 0 {
			m = h
		}
		hi = big.NewInt(int64(m.BitLen()))
	}
	return c.intern(&Term{K: KBitLen, Args: []*Term{x}, Lo: big.NewInt(0), Hi: hi})
}

func (c *Ctx) UF(name string, args ...*Term) *Term {
	if n, ok := c.UFs[name]; ok && n != len(args) {
		panic("UF arity mismatch " + name)
	}
	c.UFs[name] = len(args)
	return c.intern(&Term{K: KUF, Name: name, Args: args})
}

func (c *Ctx) Ite(cond, a, b *Term) *Term {
	if cond.K == KTrue {
		return a
	}
	if cond.K == KFalse {
		return b
	}
	if a == b {
		return a
	}
	if a.Bool {
		if a.K == KTrue && b.K == KFalse {
			return cond
		}
		if a.K == KFalse && b.K == KTrue {
			return c.Not(cond)
		}
		if a.K == KTrue {
			return c.Or(cond, b)
		}
		if a.K == KFalse {
			return c.And(c.Not(cond), b)
		}
		if b.K == KTrue {
			return c.Or(c.Not(cond), a)
		}
		if b.K == KFalse {
			return c.And(cond, a)
		}
		return c.intern(&Term{K: KIte, Args: []*Term{cond, a, b}, Bool: true})
	}
	if cond.K == KNot {
		return c.Ite(cond.Args[0], b, a)
	}
	return c.intern(&Term{K: KIte, Args: []*Term{cond, a, b}, Lo: minB(a.Lo, b.Lo), Hi: maxB(a.Hi, b.Hi)})
}

// ---------- comparisons ----------

// splitConst splits x into (rest, k) with x = rest + k when x is a sum with a constant part.
func (c *Ctx) splitConst(x *Term) (*Term, *big.Int) {
	if x.K == KAdd {
		last := x.Args[len(x.Args)-1]
		if last.K == KConst {
			rest := x.Args[:len(x.Args)-1]
			if len(rest) == 1 {
				return rest[0], last.Val
			}
			return c.Add(rest...), last.Val
		}
	}
	return x, nil
}

// moveConst rewrites (x + k) cmp y with y constant into x cmp (y - k).
func (c *Ctx) moveConst(x, y *Term) (*Term, *Term, bool) {
	if y.K == KConst {
		if r, k := c.splitConst(x); k != nil {
			return r, c.Const(new(big.Int).Sub(y.Val, k)), true
		}
	}
	if x.K == KConst {
		if r, k := c.splitConst(y); k != nil {
			return c.Const(new(big.Int).Sub(x.Val, k)), r, true
		}
	}
	return x, y, false
}

// liftIte: cmp(ite(c,a,b), k) with a,b consts => ite(c, cmp(a,k), cmp(b,k))
func (c *Ctx) liftIte(x, y *Term, f func(a, b *Term) *Term) *Term {
	if x.K == KIte && y.K == KConst && (x.Args[1].K == KConst || x.Args[2].K == KConst) {
		return c.Ite(x.Args[0], f(x.Args[1], y), f(x.Args[2], y))
	}
	if y.K == KIte && x.K == KConst && (y.Args[1].K == KConst || y.Args[2].K == KConst) {
		return c.Ite(y.Args[0], f(x, y.Args[1]), f(x, y.Args[2]))
	}
	return nil
}

func pow2(n int64) *big.Int { return new(big.Int).Lsh(big.NewInt(1), uint(n)) }

func (c *Ctx) Eq(x, y *Term) *Term {
	if x.Bool != y.Bool {
		panic("smt.Eq sort mismatch")
	}
	if x.Bool {
		return c.Iff(x, y)
	}
	if x == y {
		return c.tt
	}
	if x.K == KConst && y.K == KConst {
		return c.BoolConst(x.Val.Cmp(y.Val) == 0)
	}
	if (x.Hi != nil && y.Lo != nil && x.Hi.Cmp(y.Lo) < 0) || (y.Hi != nil && x.Lo != nil && y.Hi.Cmp(x.Lo) < 0) {
		return c.ff
	}
	if r := c.liftIte(x, y, c.Eq); r != nil {
		return r
	}
	if nx, ny, ok := c.moveConst(x, y); ok {
		return c.Eq(nx, ny)
	}
	if x.K == KBitLen || y.K == KBitLen {
		if y.K == KBitLen {
			x, y = y, x
		}
		if y.K == KConst {
			// bitlen(a)==k  <=> 2^(k-1) <= |a| < 2^k   (k=0: a==0)
			k := y.Val.Int64()
			a := c.Abs(x.Args[0])
			if k == 0 {
				return c.Eq(x.Args[0], c.ConstI(0))
			}
			return c.And(c.Le(c.Const(pow2(k-1)), a), c.Lt(a, c.Const(pow2(k))))
		}
	}
	if x.ID > y.ID {
		x, y = y, x
	}
	return c.intern(&Term{K: KEq, Args: []*Term{x, y}, Bool: true})
}

func (c *Ctx) Lt(x, y *Term) *Term {
	if x == y {
		return c.ff
	}
	if x.K == KConst && y.K == KConst {
		return c.BoolConst(x.Val.Cmp(y.Val) < 0)
	}
	if x.Hi != nil && y.Lo != nil && x.Hi.Cmp(y.Lo) < 0 {
		return c.tt
	}
	if x.Lo != nil && y.Hi != nil && x.Lo.Cmp(y.Hi) >= 0 {
		return c.ff
	}
	if r := c.liftIte(x, y, c.Lt); r != nil {
		return r
	}
	if nx, ny, ok := c.moveConst(x, y); ok {
		return c.Lt(nx, ny)
	}
	if x.K == KBitLen && y.K == KConst {
		// bitlen(a) < k <=> |a| < 2^(k-1)
		k := y.Val.Int64()
		if k <= 0 {
			return c.ff
		}
		return c.Lt(c.Abs(x.Args[0]), c.Const(pow2(k-1)))
	}
	if y.K == KBitLen && x.K == KConst {
		// k < bitlen(a) <=> |a| >= 2^k
		k := x.Val.Int64()
		if k < 0 {
			return c.tt
		}
		return c.Le(c.Const(pow2(k)), c.Abs(y.Args[0]))
	}
	return c.intern(&Term{K: KLt, Args: []*Term{x, y}, Bool: true})
}

func (c *Ctx) Le(x, y *Term) *Term {
	if x == y {
		return c.tt
	}
	if x.K == KConst && y.K == KConst {
		return c.BoolConst(x.Val.Cmp(y.Val) <= 0)
	}
	if x.Hi != nil && y.Lo != nil && x.Hi.Cmp(y.Lo) <= 0 {
		return c.tt
	}
	if x.Lo != nil && y.Hi != nil && x.Lo.Cmp(y.Hi) > 0 {
		return c.ff
	}
	if r := c.liftIte(x, y, c.Le); r != nil {
		return r
	}
	if nx, ny, ok := c.moveConst(x, y); ok {
		return c.Le(nx, ny)
	}
	if x.K == KBitLen && y.K == KConst {
		// bitlen(a) <= k <=> |a| < 2^k
		k := y.Val.Int64()
		if k < 0 {
			return c.ff
		}
		return c.Lt(c.Abs(x.Args[0]), c.Const(pow2(k)))
	}
	if y.K == KBitLen && x.K == KConst {
		// k <= bitlen(a) <=> |a| >= 2^(k-1)
		k := x.Val.Int64()
		if k <= 0 {
			return c.tt
		}
		return c.Le(c.Const(pow2(k-1)), c.Abs(y.Args[0]))
	}
	return c.intern(&Term{K: KLe, Args: []*Term{x, y}, Bool: true})
}

// ---------- Bool constructors ----------

func (c *Ctx) Not(x *Term) *Term {
	switch x.K {
	case KTrue:
		return c.ff
	case KFalse:
		return c.tt
	case KNot:
		return x.Args[0]
	case KLt:
		return c.Le(x.Args[1], x.Args[0])
	case KLe:
		return c.Lt(x.Args[1], x.Args[0])
	}
	return c.intern(&Term{K: KNot, Args: []*Term{x}, Bool: true})
}

func (c *Ctx) nary(k Kind, unit, zero *Term, xs []*Term) *Term {
	var args []*Term
	seen := map[int]bool{}
	for _, x := range xs {
		if x == zero {
			return zero
		}
		if x == unit {
			continue
		}
		if x.K == k {
			for _, a := range x.Args {
				if !seen[a.ID] {
					seen[a.ID] = true
					args = append(args, a)
				}
			}
			continue
		}
		if !seen[x.ID] {
			seen[x.ID] = true
			args = append(args, x)
		}
	}
	for _, a := range args {
		if a.K == KNot && seen[a.Args[0].ID] {
			return zero
		}
	}
	if len(args) == 0 {
		return unit
	}
	if len(args) == 1 {
		return args[0]
	}
	sort.Slice(args, func(i, j int) bool { return args[i].ID < args[j].ID })
	return c.intern(&Term{K: k, Args: args, Bool: true})
}

func (c *Ctx) And(xs ...*Term) *Term { return c.nary(KAnd, c.tt, c.ff, xs) }
func (c *Ctx) Or(xs ...*Term) *Term  { return c.nary(KOr, c.ff, c.tt, xs) }
func (c *Ctx) Implies(a, b *Term) *Term { return c.Or(c.Not(a), b) }

func (c *Ctx) Iff(x, y *Term) *Term {
	if x == y {
		return c.tt
	}
	if x.K == KTrue {
		return y
	}
	if y.K == KTrue {
		return x
	}
	if x.K == KFalse {
		return c.Not(y)
	}
	if y.K == KFalse {
		return c.Not(x)
	}
	if x.ID > y.ID {
		x, y = y, x
	}
	return c.intern(&Term{K: KIff, Args: []*Term{x, y}, Bool: true})
}

// ---------- Go-semantics helpers ----------

// TruncDiv / TruncRem implement Go's (and big.Int.Quo/Rem's) truncated division.
func (c *Ctx) TruncDiv(x, y *Term) *Term {
	xNonNeg := x.Lo != nil && x.Lo.Sign() >= 0
	yPos := y.Lo != nil && y.Lo.Sign() > 0
	if xNonNeg && yPos {
		return c.Div(x, y)
	}
	if x.K == KConst && y.K == KConst && y.Val.Sign() != 0 {
		return c.Const(new(big.Int).Quo(x.Val, y.Val))
	}
	// sign(x)*sign(y) * (|x| div |y|)
	q := c.Div(c.Abs(x), c.Abs(y))
	neg := c.Not(c.Iff(c.Lt(x, c.ConstI(0)), c.Lt(y, c.ConstI(0))))
	return c.Ite(neg, c.Neg(q), q)
}

func (c *Ctx) TruncRem(x, y *Term) *Term {
	xNonNeg := x.Lo != nil && x.Lo.Sign() >= 0
	if xNonNeg {
		return c.Mod(x, c.Abs(y))
	}
	if x.K == KConst && y.K == KConst && y.Val.Sign() != 0 {
		return c.Const(new(big.Int).Rem(x.Val, y.Val))
	}
	m := c.Mod(c.Abs(x), c.Abs(y))
	return c.Ite(c.Lt(x, c.ConstI(0)), c.Neg(m), m)
}

// Wrap reduces x into [lo, lo+2^bits) (two's complement / unsigned wrap).
func (c *Ctx) Wrap(x *Term, lo *big.Int, bits int) *Term {
	hi := new(big.Int).Add(lo, pow2(int64(bits)))
	hi.Sub(hi, big.NewInt(1))
	if x.Lo != nil && x.Hi != nil && x.Lo.Cmp(lo) >= 0 && x.Hi.Cmp(hi) <= 0 {
		return x
	}
	m := c.Const(pow2(int64(bits)))
	if lo.Sign() == 0 {
		return c.Mod(x, m)
	}
	l := c.Const(lo)
	return c.Add(c.Mod(c.Sub(x, l), m), l)
}

// ---------- evaluation ----------

type Model map[string]*big.Int // Bool vars: 0/1

func (t *Term) Eval(m Model) (*big.Int, bool) {
	cache := map[int]*big.Int{}
	ok := true
	var ev func(t *Term) *big.Int
	b2i := func(b bool) *big.Int {
		if b {
			return big.NewInt(1)
		}
		return big.NewInt(0)
	}
	ev = func(t *Term) *big.Int {
		if v, o := cache[t.ID]; o {
			return v
		}
		var r *big.Int
		switch t.K {
		case KConst:
			r = t.Val
		case KVar, KBVar:
			v, o := m[t.Name]
			if !o {
				v = big.NewInt(0)
				if t.Lo != nil && t.Lo.Sign() > 0 {
					v = t.Lo
				} else if t.Hi != nil && t.Hi.Sign() < 0 {
					v = t.Hi
				}
			}
			r = v
		case KTrue:
			r = big.NewInt(1)
		case KFalse:
			r = big.NewInt(0)
		case KAdd:
			r = new(big.Int)
			for _, a := range t.Args {
				r.Add(r, ev(a))
			}
		case KMul:
			r = new(big.Int).Mul(ev(t.Args[0]), ev(t.Args[1]))
		case KNeg:
			r = new(big.Int).Neg(ev(t.Args[0]))
		case KAbs:
			r = new(big.Int).Abs(ev(t.Args[0]))
		case KDiv, KMod:
			a, b := ev(t.Args[0]), ev(t.Args[1])
			if b.Sign() == 0 {
				ok = false
				r = big.NewInt(0)
			} else {
				q, mm := eDivMod(a, b)
				if t.K == KDiv {
					r = q
				} else {
					r = mm
				}
			}
		case KBitLen:
			r = big.NewInt(int64(ev(t.Args[0]).BitLen()))
		case KIte:
			if ev(t.Args[0]).Sign() != 0 {
				r = ev(t.Args[1])
			} else {
				r = ev(t.Args[2])
			}
		case KEq, KIff:
			r = b2i(ev(t.Args[0]).Cmp(ev(t.Args[1])) == 0)
		case KLt:
			r = b2i(ev(t.Args[0]).Cmp(ev(t.Args[1])) < 0)
		case KLe:
			r = b2i(ev(t.Args[0]).Cmp(ev(t.Args[1])) <= 0)
		case KAnd:
			r = big.NewInt(1)
			for _, a := range t.Args {
				if ev(a).Sign() == 0 {
					r = big.NewInt(0)
				}
			}
		case KOr:
			r = big.NewInt(0)
			for _, a := range t.Args {
				if ev(a).Sign() != 0 {
					r = big.NewInt(1)
				}
			}
		case KNot:
			r = b2i(ev(t.Args[0]).Sign() == 0)
		default:
			ok = false
			r = big.NewInt(0)
		}
		cache[t.ID] = r
		return r
	}
	r := ev(t)
	return r, ok
}

// ---------- printing ----------

func constStr(v *big.Int) string {
	if v.Sign() < 0 {
		return "(- " + new(big.Int).Neg(v).String() + ")"
	}
	return v.String()
}

func symName(n string) string { return "|" + strings.ReplaceAll(n, "|", "_") + "|" }

// head returns the SMT operator for a node.
func (t *Term) head() string {
	switch t.K {
	case KAdd:
		return "+"
	case KMul:
		return "*"
	case KNeg:
		return "-"
	case KDiv:
		return "div"
	case KMod:
		return "mod"
	case KAbs:
		return "abs"
	case KIte:
		return "ite"
	case KEq, KIff:
		return "="
	case KLt:
		return "<"
	case KLe:
		return "<="
	case KAnd:
		return "and"
	case KOr:
		return "or"
	case KNot:
		return "not"
	case KUF:
		return symName(t.Name)
	}
	return "?"
}

// Leaf reports whether t prints without a definition.
func (t *Term) Leaf() bool {
	switch t.K {
	case KConst, KVar, KBVar, KTrue, KFalse:
		return true
	}
	return false
}

func (t *Term) LeafStr() string {
	switch t.K {
	case KConst:
		return constStr(t.Val)
	case KVar, KBVar:
		return symName(t.Name)
	case KTrue:
		return "true"
	case KFalse:
		return "false"
	}
	return fmt.Sprintf("t%d", t.ID)
}

// Ref is how a term is referred to once defined.
func (t *Term) Ref() string {
	if t.Leaf() {
		return t.LeafStr()
	}
	return fmt.Sprintf("t%d", t.ID)
}

// DefBody prints the one-level body of a non-leaf node using Refs of children.
func (t *Term) DefBody() (string, error) {
	if t.K == KBitLen {
		// exact ite-chain: bitlen(x) = #{k : |x| >= 2^k}
		if t.Hi == nil || t.Hi.Int64() > 700 {
			return "", fmt.Errorf("BitLen of an unbounded term used outside a comparison with a constant")
		}
		n := int(t.Hi.Int64())
		var sb strings.Builder
		a := "(abs " + t.Args[0].Ref() + ")"
		for k := 0; k < n; k++ {
			fmt.Fprintf(&sb, "(ite (< %s %s) %d ", a, pow2(int64(k)).String(), k)
		}
		fmt.Fprintf(&sb, "%d", n)
		sb.WriteString(strings.Repeat(")", n))
		return sb.String(), nil
	}
	var sb strings.Builder
	sb.WriteByte('(')
	sb.WriteString(t.head())
	for _, a := range t.Args {
		sb.WriteByte(' ')
		sb.WriteString(a.Ref())
	}
	sb.WriteByte(')')
	return sb.String(), nil
}

func (t *Term) SortStr() string {
	if t.Bool {
		return "Bool"
	}
	return "Int"
}

// String is a debugging rendering (tree form, may be large).
func (t *Term) String() string {
	if t.Leaf() {
		return t.LeafStr()
	}
	var sb strings.Builder
	sb.WriteByte('(')
	if t.K == KBitLen {
		sb.WriteString("bitlen")
	} else {
		sb.WriteString(t.head())
	}
	for _, a := range t.Args {
		sb.WriteByte(' ')
		s := a.String()
		if len(s) > 400 {
			s = s[:400] + "…"
		}
		sb.WriteString(s)
	}
	sb.WriteByte(')')
	return sb.String()
}
