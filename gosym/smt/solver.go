package smt

import (
	"bufio"
	"fmt"
	"io"
	"io/ioutil"
	"math/big"
	"os"
	"os/exec"
	"strings"
	"time"
)

type Result int

const (
	Unsat Result = iota
	Sat
	Unknown
)

func (r Result) String() string { return [...]string{"unsat", "sat", "unknown"}[r] }

// Proc is one solver process speaking SMT-LIB2 on stdin/stdout.
type Proc struct {
	Name string
	cmd  *exec.Cmd
	in   io.WriteCloser
	out  *bufio.Reader
	Log  io.Writer // optional transcript
	dead bool
}

func StartProc(name string, timeoutMs int) (*Proc, error) {
	var cmd *exec.Cmd
	switch name {
	case "z3":
		cmd = exec.Command("z3", "-in", fmt.Sprintf("-t:%d", timeoutMs))
	case "z3-new":
		cmd = exec.Command("z3-new", "-in", fmt.Sprintf("-t:%d", timeoutMs))
	case "cvc5":
		cmd = exec.Command("cvc5", "--incremental", "--lang=smt2", "--produce-models", fmt.Sprintf("--tlimit-per=%d", timeoutMs))
	default:
		return nil, fmt.Errorf("unknown solver %s", name)
	}
	in, err := cmd.StdinPipe()
	if err != nil {
		return nil, err
	}
	out, err := cmd.StdoutPipe()
	if err != nil {
		return nil, err
	}
	cmd.Stderr = cmd.Stdout
	if err := cmd.Start(); err != nil {
		return nil, err
	}
	p := &Proc{Name: name, cmd: cmd, in: in, out: bufio.NewReaderSize(out, 1<<16)}
	if d := os.Getenv("GOSYM_DUMP"); d != "" {
		f, err := os.Create(fmt.Sprintf("%s/%s_%d.smt2", d, name, cmd.Process.Pid))
		if err == nil {
			p.Log = f
		}
	}
	if name == "cvc5" {
		p.Send("(set-logic ALL)")
	}
	p.Send("(set-option :produce-models true)")
	return p, nil
}

func (p *Proc) Send(s string) {
	if p.dead {
		return
	}
	if p.Log != nil {
		io.WriteString(p.Log, s+"\n")
	}
	if _, err := io.WriteString(p.in, s+"\n"); err != nil {
		p.dead = true
	}
}

// readSexp reads one balanced s-expression or atom line.
func (p *Proc) readAnswer() (string, error) {
	var sb strings.Builder
	depth := 0
	started := false
	for {
		line, err := p.out.ReadString('\n')
		if err != nil {
			p.dead = true
			return sb.String(), err
		}
		inStr := false
		for _, ch := range line {
			switch {
			case ch == '"':
				inStr = !inStr
			case inStr:
			case ch == '(':
				depth++
			case ch == ')':
				depth--
			}
		}
		if strings.TrimSpace(line) == "" && !started {
			continue
		}
		started = true
		sb.WriteString(line)
		if depth <= 0 {
			return strings.TrimSpace(sb.String()), nil
		}
	}
}

// Check runs (check-sat). Any error output makes the result Unknown.
func (p *Proc) Check() (Result, string) {
	if p.dead {
		return Unknown, "solver process dead"
	}
	p.Send("(check-sat)")
	ans, err := p.readAnswer()
	if err != nil {
		return Unknown, "solver io: " + err.Error()
	}
	switch ans {
	case "sat":
		return Sat, ""
	case "unsat":
		return Unsat, ""
	case "unknown", "timeout":
		return Unknown, ans
	}
	return Unknown, ans
}

// Sync sends an echo marker and collects everything printed before it; returns
// any "(error" lines seen (commands other than check-sat print nothing on success).
func (p *Proc) Sync() []string {
	if p.dead {
		return []string{"solver process dead"}
	}
	p.Send(`(echo "@@sync")`)
	var errs []string
	for {
		line, err := p.out.ReadString('\n')
		if err != nil {
			p.dead = true
			return append(errs, "solver io: "+err.Error())
		}
		line = strings.TrimSpace(line)
		if line == "@@sync" || line == `"@@sync"` {
			return errs
		}
		if line != "" && line != "success" {
			errs = append(errs, line)
		}
	}
}

func (p *Proc) GetValues(vars []*Term) (Model, error) {
	m := Model{}
	if len(vars) == 0 {
		return m, nil
	}
	const chunk = 200
	for i := 0; i < len(vars); i += chunk {
		j := i + chunk
		if j > len(vars) {
			j = len(vars)
		}
		var sb strings.Builder
		sb.WriteString("(get-value (")
		for _, v := range vars[i:j] {
			sb.WriteString(v.Ref())
			sb.WriteByte(' ')
		}
		sb.WriteString("))")
		p.Send(sb.String())
		ans, err := p.readAnswer()
		if err != nil {
			return nil, err
		}
		if strings.HasPrefix(ans, "(error") {
			return nil, fmt.Errorf("get-value: %s", ans)
		}
		toks := tokenize(ans)
		pos := 0
		sx, err := parseSexp(toks, &pos)
		if err != nil {
			return nil, err
		}
		for _, pair := range sx.list {
			if len(pair.list) != 2 {
				continue
			}
			name := strings.Trim(pair.list[0].atom, "|")
			v, ok := sexpInt(pair.list[1])
			if !ok {
				return nil, fmt.Errorf("cannot parse value %v for %s", pair.list[1], name)
			}
			m[name] = v
		}
	}
	return m, nil
}

type sexp struct {
	atom string
	list []*sexp
}

func tokenize(s string) []string {
	var toks []string
	i := 0
	for i < len(s) {
		ch := s[i]
		switch {
		case ch == '(' || ch == ')':
			toks = append(toks, string(ch))
			i++
		case ch == ' ' || ch == '\n' || ch == '\t' || ch == '\r':
			i++
		case ch == '|':
			j := i + 1
			for j < len(s) && s[j] != '|' {
				j++
			}
			toks = append(toks, s[i:j+1])
			i = j + 1
		default:
			j := i
			for j < len(s) && !strings.ContainsRune("() \n\t\r", rune(s[j])) {
				j++
			}
			toks = append(toks, s[i:j])
			i = j
		}
	}
	return toks
}

func parseSexp(toks []string, pos *int) (*sexp, error) {
	if *pos >= len(toks) {
		return nil, fmt.Errorf("unexpected end of s-expression")
	}
	t := toks[*pos]
	*pos++
	if t == "(" {
		n := &sexp{}
		for *pos < len(toks) && toks[*pos] != ")" {
			c, err := parseSexp(toks, pos)
			if err != nil {
				return nil, err
			}
			n.list = append(n.list, c)
		}
		if *pos >= len(toks) {
			return nil, fmt.Errorf("unbalanced s-expression")
		}
		*pos++
		if n.list == nil {
			n.list = []*sexp{}
		}
		return n, nil
	}
	return &sexp{atom: t}, nil
}

func sexpInt(s *sexp) (*big.Int, bool) {
	if s.list == nil {
		switch s.atom {
		case "true":
			return big.NewInt(1), true
		case "false":
			return big.NewInt(0), true
		}
		v, ok := new(big.Int).SetString(s.atom, 10)
		return v, ok
	}
	if len(s.list) == 2 && s.list[0].atom == "-" {
		v, ok := sexpInt(s.list[1])
		if !ok {
			return nil, false
		}
		return new(big.Int).Neg(v), true
	}
	return nil, false
}

func (p *Proc) Close() {
	if p.cmd != nil && p.cmd.Process != nil {
		p.in.Close()
		done := make(chan struct{})
		go func() { p.cmd.Wait(); close(done) }()
		select {
		case <-done:
		case <-time.After(500 * time.Millisecond):
			p.cmd.Process.Kill()
		}
	}
}

// ---------------------------------------------------------------

// Session binds a Ctx (one path) to a primary solver process plus optional
// mirrors used to cross-check assertion queries.
type Session struct {
	C        *Ctx
	P        *Proc
	Mirrors  []*Proc
	defined  map[int]bool
	declared map[string]bool
	hist     []string // path-level commands (for one-shot fallback)
	FastMs   int      // incremental attempt budget
	SlowMs   int      // one-shot fallback budget
	OneShots int
	OneShotBy map[string]int
	Queries  int
	SolverNs int64
	Errors   []string
}

func NewSession(c *Ctx, p *Proc, mirrors []*Proc) *Session {
	s := &Session{C: c, P: p, Mirrors: mirrors, defined: map[int]bool{}, declared: map[string]bool{}, OneShotBy: map[string]int{}}
	s.all("(push 1)")
	return s
}

func (s *Session) all(cmd string) {
	if !strings.HasPrefix(cmd, "(push") && !strings.HasPrefix(cmd, "(pop") {
		s.hist = append(s.hist, cmd)
	}
	s.P.Send(cmd)
	for _, m := range s.Mirrors {
		m.Send(cmd)
	}
}

// End pops the path scope.
func (s *Session) End() {
	s.all("(pop 1)")
	if errs := s.P.Sync(); len(errs) > 0 {
		s.Errors = append(s.Errors, errs...)
	}
	for _, m := range s.Mirrors {
		if errs := m.Sync(); len(errs) > 0 {
			s.Errors = append(s.Errors, errs...)
		}
	}
}

// define makes sure t and all its sub-terms are declared/defined at path level.
func (s *Session) define(t *Term) error {
	if s.defined[t.ID] {
		return nil
	}
	// iterative post-order
	type fr struct {
		t *Term
		i int
	}
	stack := []fr{{t, 0}}
	for len(stack) > 0 {
		top := &stack[len(stack)-1]
		if s.defined[top.t.ID] {
			stack = stack[:len(stack)-1]
			continue
		}
		if top.i < len(top.t.Args) {
			a := top.t.Args[top.i]
			top.i++
			if !s.defined[a.ID] {
				stack = append(stack, fr{a, 0})
			}
			continue
		}
		n := top.t
		stack = stack[:len(stack)-1]
		s.defined[n.ID] = true
		switch n.K {
		case KConst, KTrue, KFalse:
		case KVar:
			s.all(fmt.Sprintf("(declare-const %s Int)", n.Ref()))
			if n.Lo != nil {
				s.all(fmt.Sprintf("(assert (<= %s %s))", constStr(n.Lo), n.Ref()))
			}
			if n.Hi != nil {
				s.all(fmt.Sprintf("(assert (<= %s %s))", n.Ref(), constStr(n.Hi)))
			}
		case KBVar:
			s.all(fmt.Sprintf("(declare-const %s Bool)", n.Ref()))
		default:
			if n.K == KUF && !s.declared[n.Name] {
				s.declared[n.Name] = true
				s.all(fmt.Sprintf("(declare-fun %s (%s) Int)", symName(n.Name), strings.TrimSpace(strings.Repeat("Int ", len(n.Args)))))
			}
			body, err := n.DefBody()
			if err != nil {
				return err
			}
			s.all(fmt.Sprintf("(define-fun %s () %s %s)", n.Ref(), n.SortStr(), body))
		}
	}
	return nil
}

// Assert adds t to the path condition.
func (s *Session) Assert(t *Term) error {
	if t.K == KTrue {
		return nil
	}
	if err := s.define(t); err != nil {
		return err
	}
	s.all(fmt.Sprintf("(assert %s)", t.Ref()))
	return nil
}

// CheckWith asks whether pathcond ∧ t is satisfiable (primary solver only).
func (s *Session) CheckWith(t *Term) (Result, string) {
	if t.K == KFalse {
		return Unsat, ""
	}
	if err := s.define(t); err != nil {
		return Unknown, err.Error()
	}
	s.P.Send("(push 1)")
	s.P.Send(fmt.Sprintf("(assert %s)", t.Ref()))
	t0 := time.Now()
	r, why := s.P.Check()
	s.SolverNs += time.Since(t0).Nanoseconds()
	s.Queries++
	s.P.Send("(pop 1)")
	if errs := s.P.Sync(); len(errs) > 0 {
		s.Errors = append(s.Errors, errs...)
		return Unknown, strings.Join(errs, "; ")
	}
	if r == Unknown {
		save := s.SlowMs
		if s.SlowMs <= 0 || s.SlowMs > 4000 {
			s.SlowMs = 4000 // feasibility checks get a small portfolio budget
		}
		r, _, why = s.oneShot(t, false)
		s.SlowMs = save
	}
	return r, why
}

// oneShot re-runs pathcond ∧ t in a fresh non-incremental z3 (full tactic pipeline).
func (s *Session) oneShot(t *Term, wantModel bool) (Result, Model, string) {
	ms := s.SlowMs
	if ms <= 0 {
		ms = 20000
	}
	s.OneShots++
	var sb strings.Builder
	for _, h := range s.hist {
		sb.WriteString(h)
		sb.WriteByte('\n')
	}
	fmt.Fprintf(&sb, "(assert %s)\n(check-sat)\n", t.Ref())
	var vars []*Term
	if wantModel {
		for _, v := range s.C.Vars {
			if s.defined[v.ID] {
				vars = append(vars, v)
			}
		}
		if len(vars) > 0 {
			sb.WriteString("(get-value (")
			for _, v := range vars {
				sb.WriteString(v.Ref())
				sb.WriteByte(' ')
			}
			sb.WriteString("))\n")
		}
	}
	t0 := time.Now()
	script := sb.String()
	type ans struct {
		solver string
		r      Result
		m      Model
		why    string
	}
	parse := func(solver, txt string) ans {
		txt = strings.TrimSpace(txt)
		if strings.HasPrefix(txt, "unsat") {
			// a following (error ...) only comes from the get-value that cannot be answered after unsat
			rest := strings.TrimSpace(strings.TrimPrefix(txt, "unsat"))
			if rest == "" || (strings.HasPrefix(rest, "(error") && strings.Count(rest, "(error") == 1 && wantModel) {
				return ans{solver, Unsat, nil, ""}
			}
			return ans{solver, Unknown, nil, solver + ": " + trunc(txt, 300)}
		}
		if strings.Contains(txt, "(error") {
			return ans{solver, Unknown, nil, solver + ": " + trunc(txt, 300)}
		}
		switch {
		case strings.HasPrefix(txt, "sat"):
			if !wantModel {
				return ans{solver, Sat, nil, ""}
			}
			m := Model{}
			rest := strings.TrimSpace(strings.TrimPrefix(txt, "sat"))
			if len(vars) > 0 {
				toks := tokenize(rest)
				pos := 0
				sx, err := parseSexp(toks, &pos)
				if err != nil {
					return ans{solver, Unknown, nil, "model parse: " + err.Error()}
				}
				for _, pair := range sx.list {
					if len(pair.list) == 2 {
						if v, ok := sexpInt(pair.list[1]); ok {
							m[strings.Trim(pair.list[0].atom, "|")] = v
						}
					}
				}
			}
			s.fillDefaults(m)
			return ans{solver, Sat, m, ""}
		}
		return ans{solver, Unknown, nil, solver + ": " + trunc(txt, 100)}
	}
	secs := fmt.Sprintf("%d", (ms+999)/1000)
	cmds := []*exec.Cmd{
		exec.Command("cvc5", "--lang=smt2", "--produce-models", "-q", "--tlimit="+fmt.Sprintf("%d", ms)),
		exec.Command("z3-new", "-in", "-T:"+secs),
		exec.Command("z3", "-in", "-T:"+secs),
	}
	names := []string{"cvc5", "z3-new", "z3"}
	ch := make(chan ans, len(cmds))
	for j, cmd := range cmds {
		in := script
		if names[j] == "cvc5" {
			in = "(set-logic ALL)\n" + script
		}
		cmd.Stdin = strings.NewReader(in)
		go func(name string, cmd *exec.Cmd) {
			out, _ := cmd.CombinedOutput()
			ch <- parse(name, string(out))
		}(names[j], cmd)
	}
	var final ans
	final.r = Unknown
	var whys []string
	for range cmds {
		a := <-ch
		if a.r != Unknown {
			final = a
			break
		}
		whys = append(whys, a.why)
	}
	for _, cmd := range cmds {
		if cmd.Process != nil {
			cmd.Process.Kill()
		}
	}
	s.SolverNs += time.Since(t0).Nanoseconds()
	if final.r == Unknown {
		if d := os.Getenv("GOSYM_DUMP"); d != "" {
			ioutil.WriteFile(fmt.Sprintf("%s/hard_%d_%d.smt2", d, os.Getpid(), time.Now().UnixNano()), []byte(script), 0o644)
		}
		return Unknown, nil, "portfolio: " + strings.Join(whys, " | ")
	}
	s.OneShotBy[final.solver]++
	return final.r, final.m, ""
}

func trunc(s string, n int) string {
	if len(s) > n {
		return s[:n]
	}
	return s
}

func (s *Session) fillDefaults(m Model) {
	for _, v := range s.C.Vars {
		if _, ok := m[v.Name]; !ok {
			d := big.NewInt(0)
			if v.Lo != nil && v.Lo.Sign() > 0 {
				d = v.Lo
			} else if v.Hi != nil && v.Hi.Sign() < 0 {
				d = v.Hi
			}
			m[v.Name] = d
		}
	}
}

// CheckModel is CheckWith that also returns a model on sat.
func (s *Session) CheckModel(t *Term) (Result, Model, string) {
	if t.K == KFalse {
		return Unsat, nil, ""
	}
	if err := s.define(t); err != nil {
		return Unknown, nil, err.Error()
	}
	s.P.Send("(push 1)")
	s.P.Send(fmt.Sprintf("(assert %s)", t.Ref()))
	t0 := time.Now()
	r, why := s.P.Check()
	s.SolverNs += time.Since(t0).Nanoseconds()
	s.Queries++
	var m Model
	if r == Sat {
		var err error
		var vars []*Term
		for _, v := range s.C.Vars {
			if s.defined[v.ID] {
				vars = append(vars, v)
			}
		}
		m, err = s.P.GetValues(vars)
		if err == nil {
			for _, v := range s.C.Vars {
				if !s.defined[v.ID] {
					d := big.NewInt(0)
					if v.Lo != nil && v.Lo.Sign() > 0 {
						d = v.Lo
					} else if v.Hi != nil && v.Hi.Sign() < 0 {
						d = v.Hi
					}
					m[v.Name] = d
				}
			}
		}
		if err != nil {
			r, why = Unknown, err.Error()
		}
	}
	s.P.Send("(pop 1)")
	if errs := s.P.Sync(); len(errs) > 0 {
		s.Errors = append(s.Errors, errs...)
		return Unknown, nil, strings.Join(errs, "; ")
	}
	if r == Unknown {
		r, m, why = s.oneShot(t, true)
	}
	return r, m, why
}

// CrossCheck re-runs pathcond ∧ t on every mirror; returns the results.
func (s *Session) CrossCheck(t *Term) map[string]Result {
	out := map[string]Result{}
	for _, m := range s.Mirrors {
		m.Send("(push 1)")
		m.Send(fmt.Sprintf("(assert %s)", t.Ref()))
		t0 := time.Now()
		r, _ := m.Check()
		s.SolverNs += time.Since(t0).Nanoseconds()
		m.Send("(pop 1)")
		if errs := m.Sync(); len(errs) > 0 {
			s.Errors = append(s.Errors, errs...)
			r = Unknown
		}
		out[m.Name] = r
	}
	return out
}
