// gosym: bounded symbolic execution of /repo's Go SSA + SMT.
//
//	gosym check Cxx [--tier quick|thorough]    run every harness of a property, replay counterexamples, write evidence
//	gosym run -pkg <rel pkg dir> -fn <Harness> explore one harness (development)
//	gosym replay <replay.json>                 replay one counterexample natively
//	gosym list                                 list harnesses
package main

import (
	"bufio"
	"encoding/json"
	"flag"
	"fmt"
	"io/ioutil"
	"os"
	"os/exec"
	"path/filepath"
	"regexp"
	"sort"
	"strconv"
	"strings"
	"time"

	"gosym/engine"
	"gosym/explore"
	"gosym/smt"
)

var (
	verifRoot = envOr("VERIF_ROOT", "/verif")
	repoRoot  = envOr("VERIF_REPO", "/repo")
	outRoot   = envOr("VERIF_OUT", "") // evidence/replay output directory (default <verifRoot>/evidence)
)

func evidenceDir() string {
	if outRoot != "" {
		return outRoot
	}
	return filepath.Join(verifRoot, "evidence")
}

func envOr(k, d string) string {
	if v := os.Getenv(k); v != "" {
		return v
	}
	return d
}

type Harness struct {
	Prop     string
	Name     string // Go function name
	PkgRel   string // package dir relative to repo root
	File     string // harness source file
	Thorough bool   // thorough tier only
}

var reHarness = regexp.MustCompile(`(?m)^func (Verif(C\d\d)(T?)_\w+)\(\)`)

func discover() ([]Harness, map[string]string, error) {
	var hs []Harness
	overlayFiles := map[string]string{} // virtual path under repo -> real file
	root := filepath.Join(verifRoot, "harness")
	err := filepath.Walk(root, func(p string, info os.FileInfo, err error) error {
		if err != nil {
			return err
		}
		if info.IsDir() || !strings.HasSuffix(p, ".go") {
			return nil
		}
		rel, _ := filepath.Rel(root, p)
		overlayFiles[filepath.Join(repoRoot, rel)] = p
		src, err := ioutil.ReadFile(p)
		if err != nil {
			return err
		}
		for _, m := range reHarness.FindAllStringSubmatch(string(src), -1) {
			hs = append(hs, Harness{Prop: m[2], Name: m[1], PkgRel: filepath.Dir(rel), File: p, Thorough: m[3] == "T"})
		}
		return nil
	})
	sort.Slice(hs, func(i, j int) bool { return hs[i].Name < hs[j].Name })
	return hs, overlayFiles, err
}

func loadProgram(pkgRels []string, overlayFiles map[string]string) (*engine.Program, float64, error) {
	t0 := time.Now()
	overlay := map[string][]byte{}
	for virt, real := range overlayFiles {
		b, err := ioutil.ReadFile(real)
		if err != nil {
			return nil, 0, err
		}
		overlay[virt] = b
	}
	var pats []string
	seen := map[string]bool{}
	for _, r := range pkgRels {
		if !seen[r] {
			seen[r] = true
			pats = append(pats, "./"+r)
		}
	}
	P, err := engine.Load(repoRoot, pats, overlay)
	return P, time.Since(t0).Seconds(), err
}

// ---------------------------------------------------------------- replay

type ReplayFile struct {
	Property string            `json:"property"`
	Harness  string            `json:"harness"`
	Pkg      string            `json:"pkg"`
	AssertID string            `json:"assert_id"`
	Why      string            `json:"why,omitempty"`
	Values   map[string]string `json:"values"`
	Choices  map[string]int    `json:"choices"`
	Known    []string          `json:"known"`
	Thorough bool              `json:"thorough"`
	Repeat   int               `json:"repeat,omitempty"`
}

type NativeResult struct {
	File    string   `json:"file"`
	Harness string   `json:"harness"`
	Failed  []string `json:"failed"`
	Panic   string   `json:"panic"`
	Reached []string `json:"reached"`
	Asserts int      `json:"asserts"`
}

func modelStrings(m smt.Model) map[string]string {
	out := map[string]string{}
	for k, v := range m {
		out[k] = v.String()
	}
	return out
}

// runNative builds the test binary of pkgRel (with all harness files overlaid) once and runs
// it on the given replay files. Returns results keyed by file.
// runDir: the directory a replay binary runs in - the package directory, or the repository root for the overlay-only
// harness packages (zzverif/...), which have no directory on disk.
func runDir(pkgRel string) string {
	d := filepath.Join(repoRoot, pkgRel)
	if st, err := os.Stat(d); err == nil && st.IsDir() {
		return d
	}
	return repoRoot
}

func runNative(pkgRel string, overlayFiles map[string]string, files []string) (map[string]NativeResult, string, error) {
	work, err := ioutil.TempDir(filepath.Join(verifRoot, ".work"), "replay")
	if err != nil {
		os.MkdirAll(filepath.Join(verifRoot, ".work"), 0o755)
		work, err = ioutil.TempDir(filepath.Join(verifRoot, ".work"), "replay")
		if err != nil {
			return nil, "", err
		}
	}
	defer os.RemoveAll(work)
	// harness functions of this package
	hs, _, _ := discover()
	var names []string
	pkgName := ""
	for _, h := range hs {
		if h.PkgRel == pkgRel {
			names = append(names, h.Name)
		}
	}
	for virt, real := range overlayFiles {
		if filepath.Dir(virt) == filepath.Join(repoRoot, pkgRel) {
			src, _ := ioutil.ReadFile(real)
			if m := regexp.MustCompile(`(?m)^package (\w+)`).FindSubmatch(src); m != nil {
				pkgName = string(m[1])
			}
		}
	}
	if pkgName == "" {
		return nil, "", fmt.Errorf("no harness package in %s", pkgRel)
	}
	var sb strings.Builder
	fmt.Fprintf(&sb, "package %s\n\nimport (\n\t\"testing\"\n\tzz \"%s/zzverif\"\n)\n\nfunc TestVerifReplay(t *testing.T) {\n\tzz.RunReplay(t, map[string]func(){\n", pkgName, engine.RepoMod)
	for _, n := range names {
		fmt.Fprintf(&sb, "\t\t%q: %s,\n", n, n)
	}
	sb.WriteString("\t})\n}\n")
	testFile := filepath.Join(work, "zz_verif_replay_test.go")
	if err := ioutil.WriteFile(testFile, []byte(sb.String()), 0o644); err != nil {
		return nil, "", err
	}
	repl := map[string]string{}
	for virt, real := range overlayFiles {
		repl[virt] = real
	}
	repl[filepath.Join(repoRoot, pkgRel, "zz_verif_replay_test.go")] = testFile
	ovJSON, _ := json.Marshal(map[string]interface{}{"Replace": repl})
	ovFile := filepath.Join(work, "overlay.json")
	ioutil.WriteFile(ovFile, ovJSON, 0o644)
	env := append(os.Environ(), "GOFLAGS=-mod=mod", "GOPROXY=off", "GOSUMDB=off", "GOTOOLCHAIN=local")
	// replays of *_Race* harnesses run under Go's race detector (one process per replay, so that a report can be
	// attributed); everything else runs on the plain build
	var plain, racy []string
	for _, f := range files {
		var rf ReplayFile
		if b, err := ioutil.ReadFile(f); err == nil && json.Unmarshal(b, &rf) == nil && strings.Contains(rf.Harness, "_Race") {
			racy = append(racy, f)
		} else {
			plain = append(plain, f)
		}
	}
	results := map[string]NativeResult{}
	var logs strings.Builder
	runSet := func(set []string, race bool) error {
		if len(set) == 0 {
			return nil
		}
		bin := filepath.Join(work, "replay.test")
		args := []string{"test", "-c", "-vet=off", "-overlay", ovFile, "-o", bin}
		chunk := 20
		if race {
			bin = filepath.Join(work, "replay_race.test")
			args = []string{"test", "-c", "-race", "-vet=off", "-overlay", ovFile, "-o", bin}
			chunk = 1
		}
		cmd := exec.Command("go", append(args, "./"+pkgRel)...)
		cmd.Dir = repoRoot
		cmd.Env = env
		out, err := cmd.CombinedOutput()
		if err != nil {
			return fmt.Errorf("native build failed: %v\n%s", err, out)
		}
		for start := 0; start < len(set); start += chunk {
			end := start + chunk
			if end > len(set) {
				end = len(set)
			}
			run := exec.Command(bin, "-test.run", "^TestVerifReplay$", "-test.count=1", "-test.timeout=300s")
			run.Dir = runDir(pkgRel)
			run.Env = append(env, "VERIF_REPLAY="+strings.Join(set[start:end], ","))
			o, _ := run.CombinedOutput()
			logs.Write(o)
			sc := bufio.NewScanner(strings.NewReader(string(o)))
			sc.Buffer(make([]byte, 1<<20), 1<<24)
			for sc.Scan() {
				line := sc.Text()
				if j := strings.Index(line, "VERIF-RESULT: "); j >= 0 {
					var r NativeResult
					if json.Unmarshal([]byte(line[j+len("VERIF-RESULT: "):]), &r) == nil {
						results[r.File] = r
					}
				}
			}
			// a replay that terminates the test process (os.Exit in the target, a fatal runtime error such as a deadlock
			// or concurrent map writes) leaves no result line: re-run such files one by one; a process that dies again,
			// quickly and with a non-zero status, is a failed replay
			for _, f := range set[start:end] {
				if _, ok := results[f]; ok || strings.Contains(string(o), "panic: test timed out") {
					continue
				}
				t0 := time.Now()
				one := exec.Command(bin, "-test.run", "^TestVerifReplay$", "-test.count=1", "-test.timeout=120s")
				one.Dir = runDir(pkgRel)
				one.Env = append(env, "VERIF_REPLAY="+f)
				oo, oerr := one.CombinedOutput()
				logs.Write(oo)
				got := false
				sc2 := bufio.NewScanner(strings.NewReader(string(oo)))
				sc2.Buffer(make([]byte, 1<<20), 1<<24)
				for sc2.Scan() {
					line := sc2.Text()
					if j := strings.Index(line, "VERIF-RESULT: "); j >= 0 {
						var r NativeResult
						if json.Unmarshal([]byte(line[j+len("VERIF-RESULT: "):]), &r) == nil {
							results[r.File] = r
							got = true
						}
					}
				}
				if !got && oerr != nil && time.Since(t0) < 60*time.Second && !strings.Contains(string(oo), "test timed out") {
					tail := strings.TrimSpace(string(oo))
					if len(tail) > 300 {
						tail = tail[len(tail)-300:]
					}
					r := NativeResult{File: f, Panic: "process terminated during the replay (" + oerr.Error() + "): " + tail}
					var rf ReplayFile
					if b, err := ioutil.ReadFile(f); err == nil && json.Unmarshal(b, &rf) == nil {
						r.Harness = rf.Harness
					}
					results[f] = r
				}
			}
			if race && strings.Contains(string(o), "WARNING: DATA RACE") {
				f := set[start]
				r := results[f]
				r.File = f
				id := "data-race"
				var rf ReplayFile
				if b, err := ioutil.ReadFile(f); err == nil && json.Unmarshal(b, &rf) == nil {
					r.Harness = rf.Harness
					if strings.Contains(rf.AssertID, "race") {
						id = rf.AssertID
					}
				}
				r.Failed = append(r.Failed, id)
				results[f] = r
			}
		}
		return nil
	}
	if err := runSet(plain, false); err != nil {
		return nil, "", err
	}
	if err := runSet(racy, true); err != nil {
		return nil, "", err
	}
	return results, logs.String(), nil
}

func nativeFails(r NativeResult) bool {
	return len(r.Failed) > 0 || (r.Panic != "" && r.Panic != "ASSUME-FAILED")
}

// ---------------------------------------------------------------- known findings

type Known struct {
	Kind     string // known | fixed
	Property string
	ID       string
	Witness  string
	Text     string
}

func loadKnown() []Known {
	var ks []Known
	b, err := ioutil.ReadFile(filepath.Join(verifRoot, "known_findings.txt"))
	if err != nil {
		return nil
	}
	for _, line := range strings.Split(string(b), "\n") {
		line = strings.TrimSpace(line)
		if line == "" || strings.HasPrefix(line, "#") {
			continue
		}
		var k Known
		if strings.HasPrefix(line, "known:") {
			k.Kind = "known"
		} else if strings.HasPrefix(line, "fixed:") {
			k.Kind = "fixed"
		} else {
			continue
		}
		rest := strings.TrimSpace(line[6:])
		var text []string
		for _, f := range strings.Fields(rest) {
			switch {
			case strings.HasPrefix(f, "property=") && k.Property == "":
				k.Property = f[9:]
			case strings.HasPrefix(f, "id=") && k.ID == "":
				k.ID = f[3:]
			case strings.HasPrefix(f, "witness=") && k.Witness == "":
				k.Witness = f[8:]
			default:
				text = append(text, f)
			}
		}
		k.Text = strings.Join(text, " ")
		ks = append(ks, k)
	}
	return ks
}

// ---------------------------------------------------------------- check

type harnessReport struct {
	H       Harness
	S       *explore.Summary
	Confirmed []string // replay files of confirmed violations
	Spurious  []string
	ValidatedOK int
	ValidatedBad []string
}

func tierOpts(thorough bool) explore.Opts {
	o := explore.Opts{Workers: 16, MaxPaths: 80000, Deadline: 300 * time.Second, SolverMs: 15000, Thorough: thorough}
	if thorough {
		o.MaxPaths = 2000000
		o.Deadline = 40 * time.Minute
		o.SolverMs = 60000
		o.CrossCheck = true
	}
	if v := os.Getenv("VERIF_WORKERS"); v != "" {
		if n, err := strconv.Atoi(v); err == nil {
			o.Workers = n
		}
	}
	return o
}

func cmdCheck(prop string, tier string) int {
	t0 := time.Now()
	thorough := tier == "thorough"
	seed := 0
	if v := os.Getenv("VERIF_SEED"); v != "" {
		seed, _ = strconv.Atoi(v)
	}
	hs, ov, err := discover()
	if err != nil {
		fmt.Println("INCONCLUSIVE property=" + prop + " reason=" + err.Error())
		return 3
	}
	var mine []Harness
	var pkgs []string
	for _, h := range hs {
		if h.Prop == prop && (thorough || !h.Thorough) {
			if only := os.Getenv("VERIF_ONLY"); only != "" && !regexp.MustCompile(only).MatchString(h.Name) {
				continue // development aid: run a subset of the property's harnesses (never set by the registered commands)
			}
			mine = append(mine, h)
			pkgs = append(pkgs, h.PkgRel)
		}
	}
	if len(mine) == 0 {
		fmt.Printf("INCONCLUSIVE property=%s reason=no harness\n", prop)
		return 3
	}
	os.MkdirAll(filepath.Join(evidenceDir(), "replay"), 0o755)
	os.MkdirAll(filepath.Join(verifRoot, ".work"), 0o755)

	// known findings: replay each witness on the current tree
	knownOn := map[string]bool{}
	var knownLines []string
	for _, k := range loadKnown() {
		if k.Property != prop || k.Kind != "known" {
			continue
		}
		wf := k.Witness
		if !filepath.IsAbs(wf) {
			wf = filepath.Join(verifRoot, wf)
		}
		var rf ReplayFile
		b, err := ioutil.ReadFile(wf)
		if err != nil || json.Unmarshal(b, &rf) != nil {
			fmt.Printf("INCONCLUSIVE property=%s reason=cannot read witness %s\n", prop, wf)
			return 3
		}
		res, logs, err := runNative(rf.Pkg, ov, []string{wf})
		if err != nil {
			fmt.Printf("INCONCLUSIVE property=%s reason=witness replay failed: %v\n", prop, err)
			return 3
		}
		r, ok := res[wf]
		if !ok {
			fmt.Printf("INCONCLUSIVE property=%s reason=witness replay produced no result\n%s\n", prop, logs)
			return 3
		}
		if nativeFails(r) {
			knownOn[k.ID] = true
			knownLines = append(knownLines, fmt.Sprintf("KNOWN-FINDING: property=%s id=%s %s", prop, k.ID, k.Text))
		}
	}
	for _, l := range knownLines {
		fmt.Println(l)
	}

	P, loadSecs, err := loadProgram(pkgs, ov)
	if err != nil {
		fmt.Printf("INCONCLUSIVE property=%s reason=load: %v\n", prop, err)
		return 3
	}
	fmt.Printf("loaded %d packages in %.1fs\n", len(P.Pkgs), loadSecs)

	var reports []*harnessReport
	inconclusive := []string{}
	violations := 0
	for _, h := range mine {
		pkg := P.Pkgs[engine.RepoMod+"/"+h.PkgRel]
		if pkg == nil {
			inconclusive = append(inconclusive, "package not loaded: "+h.PkgRel)
			continue
		}
		fn := pkg.Func(h.Name)
		if fn == nil {
			inconclusive = append(inconclusive, "harness not found: "+h.Name)
			continue
		}
		o := tierOpts(thorough)
		o.Known = knownOn
		s := explore.Run(P, fn, o)
		rep := &harnessReport{H: h, S: s}
		reports = append(reports, rep)
		fmt.Printf("%-44s paths=%d %v decisions=%d queries=%d solver=%.1fs wall=%.1fs\n", h.Name, s.Paths, s.ByStatus, s.Decisions, s.Queries, s.SolverSec, s.WallSec)
		for _, id := range sortedAssertIDs(s) {
			a := s.Asserts[id]
			fmt.Printf("    assert %-44s checked=%d discharged=%d concrete-ok=%d violated=%d unknown=%d hunt-unknown=%d\n", id, a.Checked, a.Discharged, a.ConcreteOK, a.Violated, a.Unknown, a.HuntUnknown)
		}
		for _, k := range explore.SortedKeys(s.Unsupported) {
			inconclusive = append(inconclusive, fmt.Sprintf("%s: unsupported: %s (x%d)", h.Name, k, s.Unsupported[k]))
		}
		for _, k := range explore.SortedKeys(s.Undecided) {
			inconclusive = append(inconclusive, fmt.Sprintf("%s: undecided: %s (x%d)", h.Name, k, s.Undecided[k]))
		}
		for _, e := range s.EngineErrs {
			inconclusive = append(inconclusive, fmt.Sprintf("%s: engine error: %s", h.Name, trunc(e, 1200)))
		}
		if s.Truncated != "" {
			inconclusive = append(inconclusive, fmt.Sprintf("%s: %s", h.Name, s.Truncated))
		}
		if len(s.Reached) == 0 && len(s.Violations) == 0 {
			inconclusive = append(inconclusive, fmt.Sprintf("%s: VACUOUS: no path reached a Reach label", h.Name))
		}
		// native replays: violations (dedup by assert id, up to 3 each) + validation samples
		var files []string
		kind := map[string]string{}
		perID := map[string]int{}
		for _, v := range s.Violations {
			if perID[v.AssertID] >= 3 {
				continue
			}
			perID[v.AssertID]++
			rf := ReplayFile{Property: prop, Harness: h.Name, Pkg: h.PkgRel, AssertID: v.AssertID, Why: v.Why, Values: modelStrings(v.Model), Choices: v.Choices, Thorough: thorough}
			if strings.Contains(h.Name, "MapOrder") {
				rf.Repeat = 300 // Go randomises map iteration natively: repeat until the order that fails shows up
			} else if h.PkgRel == "store/rootmulti" || h.PkgRel == "baseapp" || h.PkgRel == "zzverif/vapp" {
				// the real root multistore commits its substores in Go map order (the engine uses insertion order): a
				// counterexample that depends on which substore was flushed first may need a few native attempts
				rf.Repeat = 40
			}
			for k := range knownOn {
				rf.Known = append(rf.Known, k)
			}
			f := filepath.Join(evidenceDir(), "replay", fmt.Sprintf("%s_%s_%s_%d.json", prop, h.Name, sanitize(v.AssertID), perID[v.AssertID]))
			b, _ := json.MarshalIndent(rf, "", " ")
			ioutil.WriteFile(f, b, 0o644)
			files = append(files, f)
			kind[f] = "violation:" + v.AssertID
		}
		for j, sm := range s.Samples {
			rf := ReplayFile{Property: prop, Harness: h.Name, Pkg: h.PkgRel, Values: modelStrings(sm.Model), Choices: sm.Choices, Thorough: thorough}
			for k := range knownOn {
				rf.Known = append(rf.Known, k)
			}
			f := filepath.Join(verifRoot, ".work", fmt.Sprintf("sample_%s_%d_%d.json", h.Name, os.Getpid(), j))
			b, _ := json.Marshal(rf)
			ioutil.WriteFile(f, b, 0o644)
			files = append(files, f)
			kind[f] = "sample:" + strings.Join(sm.Reached, ",")
		}
		if len(files) > 0 {
			res, logs, err := runNative(h.PkgRel, ov, files)
			if err != nil {
				inconclusive = append(inconclusive, fmt.Sprintf("%s: native replay failed: %v", h.Name, err))
			}
			for _, f := range files {
				r, ok := res[f]
				k := kind[f]
				if strings.HasPrefix(k, "violation:") {
					if !ok {
						if err == nil {
							inconclusive = append(inconclusive, fmt.Sprintf("%s: no native result for %s\n%s", h.Name, f, trunc(logs, 2000)))
						}
						continue
					}
					if nativeFails(r) {
						rep.Confirmed = append(rep.Confirmed, f)
						violations++
						fmt.Printf("VIOLATION property=%s replay=%s\n", prop, f)
						fmt.Printf("    harness=%s assert=%s native: failed=%v panic=%q\n", h.Name, strings.TrimPrefix(k, "violation:"), r.Failed, trunc(r.Panic, 200))
					} else {
						rep.Spurious = append(rep.Spurious, f)
						inconclusive = append(inconclusive, fmt.Sprintf("%s: SPURIOUS counterexample for %s did not reproduce natively (%s)", h.Name, k, f))
					}
				} else {
					os.Remove(f)
					if !ok {
						continue
					}
					want := strings.TrimPrefix(k, "sample:")
					got := strings.Join(r.Reached, ",")
					if nativeFails(r) || got != want {
						rep.ValidatedBad = append(rep.ValidatedBad, fmt.Sprintf("engine reached [%s] / native reached [%s] failed=%v panic=%q", want, got, r.Failed, trunc(r.Panic, 200)))
						inconclusive = append(inconclusive, fmt.Sprintf("%s: TRANSLATION MISMATCH on a passing path: %s", h.Name, rep.ValidatedBad[len(rep.ValidatedBad)-1]))
					} else {
						rep.ValidatedOK++
					}
				}
			}
		}
	}
	wall := time.Since(t0).Seconds()
	writeEvidence(prop, tier, seed, reports, knownLines, inconclusive, violations, wall, loadSecs)
	if violations > 0 {
		return 1
	}
	if len(inconclusive) > 0 {
		for _, r := range inconclusive {
			fmt.Printf("INCONCLUSIVE property=%s reason=%s\n", prop, trunc(r, 1500))
		}
		return 3
	}
	fmt.Printf("OK property=%s tier=%s harnesses=%d wall=%.1fs\n", prop, tier, len(mine), wall)
	return 0
}

func sanitize(s string) string {
	return regexp.MustCompile(`[^A-Za-z0-9_.-]`).ReplaceAllString(s, "_")
}

func trunc(s string, n int) string {
	if len(s) > n {
		return s[:n] + "…"
	}
	return s
}

func sortedAssertIDs(s *explore.Summary) []string {
	var ids []string
	for k := range s.Asserts {
		ids = append(ids, k)
	}
	sort.Strings(ids)
	return ids
}

func writeEvidence(prop, tier string, seed int, reps []*harnessReport, known, inconclusive []string, violations int, wall, loadSecs float64) {
	states, transitions, validated, obligations, discharged, queries := 0, 0, 0, 0, 0, 0
	solver := 0.0
	var samples []interface{}
	funcs := map[string]int{}
	stubs := map[string]int{}
	var harnessRows []interface{}
	for _, r := range reps {
		s := r.S
		states += s.Paths
		transitions += s.Decisions
		validated += r.ValidatedOK + len(r.Confirmed)
		queries += s.Queries
		solver += s.SolverSec
		for k, v := range s.Funcs {
			funcs[k] += v
		}
		for k, v := range s.Stubs {
			stubs[k] += v
		}
		row := map[string]interface{}{"harness": r.H.Name, "package": r.H.PkgRel, "paths": s.Paths, "by_status": s.ByStatus,
			"decisions": s.Decisions, "solver_queries": s.Queries, "solver_s": round3(s.SolverSec), "wall_s": round3(s.WallSec),
			"instructions": s.Steps, "max_symbolic_vars": s.MaxVars, "reached": s.Reached, "native_validated_paths": r.ValidatedOK,
			"confirmed_violations": r.Confirmed, "spurious": r.Spurious, "truncated": s.Truncated, "unconfirmed_paths": s.Unconfirmed}
		harnessRows = append(harnessRows, row)
		for _, id := range sortedAssertIDs(s) {
			a := s.Asserts[id]
			obligations += a.Checked
			discharged += a.Discharged + a.ConcreteOK
			samples = append(samples, map[string]interface{}{"harness": r.H.Name, "assert": id, "paths_checked": a.Checked,
				"solver_unsat": a.Discharged, "concretely_true": a.ConcreteOK, "violated": a.Violated, "unknown": a.Unknown, "bug_hunting_unknown": a.HuntUnknown, "cross_confirmed": a.CrossConfirmed, "cross_unknown": a.CrossUnknown})
		}
	}
	if len(samples) == 0 {
		samples = append(samples, map[string]interface{}{"note": "no assertion reached"})
	}
	if states == 0 {
		states = 1
	}
	if transitions == 0 {
		transitions = 1
	}
	var fnames []string
	for k := range funcs {
		fnames = append(fnames, k)
	}
	sort.Strings(fnames)
	var snames []string
	for k := range stubs {
		snames = append(snames, k)
	}
	sort.Strings(snames)
	ev := map[string]interface{}{
		"property_id": prop, "tier": tier, "seed": seed, "level": "model_checking", "wall_s": round3(wall), "violations": violations,
		"coverage": map[string]interface{}{
			"states": states, "transitions": transitions, "traces_validated_against_impl": validated, "samples": samples,
			"obligations": obligations, "discharged": discharged, "exhaustive": false,
			"solver_queries": queries, "solver_time_s": round3(solver), "load_and_ssa_build_s": round3(loadSecs),
			"harnesses": harnessRows, "functions_encoded": fnames, "functions_encoded_count": len(fnames), "stubs_used": snames,
			"known_findings": known, "inconclusive": inconclusive,
			"explanation": "states = symbolic paths of the real SSA explored to completion; transitions = solver-decided branch decisions; obligations = assertion instances (one per path reaching a vAssert), discharged = proven unsat(pc ∧ ¬assert) or concretely true; traces_validated_against_impl = solver models replayed against the native build (passing-path samples whose Reach labels matched + confirmed counterexamples)",
		},
		"assumptions": assumptionsFor(prop, snames),
	}
	b, _ := json.MarshalIndent(ev, "", " ")
	os.MkdirAll(evidenceDir(), 0o755)
	ioutil.WriteFile(filepath.Join(evidenceDir(), prop+".json"), b, 0o644)
}

func round3(f float64) float64 { return float64(int64(f*1000+0.5)) / 1000 }

func assumptionsFor(prop string, stubs []string) []string {
	out := []string{
		"bounded: shape bounds are those written in the harness sources under /verif/harness (Choice/Int ranges); nothing outside them is claimed",
		"Go integers are encoded as SMT Int with explicit mod 2^k wrap; math/big.Int as SMT Int (exact)",
		"solver: z3 4.8.12 (quick) ; thorough additionally cross-checks every assertion query on z3 5.1 and cvc5",
		"intrinsics/stubs listed in coverage.stubs_used replace dependency code and are part of the claim",
	}
	b, err := ioutil.ReadFile(filepath.Join(verifRoot, "harness", "ASSUMPTIONS.json"))
	if err == nil {
		var m map[string][]string
		if json.Unmarshal(b, &m) == nil {
			out = append(out, m[prop]...)
		}
	}
	return out
}

// ---------------------------------------------------------------- run (dev)

func cmdRun(args []string) int {
	fs := flag.NewFlagSet("run", flag.ExitOnError)
	pkgRel := fs.String("pkg", "types", "package dir relative to repo root")
	fnName := fs.String("fn", "", "harness function")
	workers := fs.Int("workers", 16, "")
	maxPaths := fs.Int("maxpaths", 5000, "")
	verbose := fs.Bool("v", false, "")
	thorough := fs.Bool("thorough", false, "")
	cross := fs.Bool("cross", false, "")
	fs.Parse(args)
	_, ov, err := discover()
	if err != nil {
		fmt.Println(err)
		return 2
	}
	P, secs, err := loadProgram([]string{*pkgRel}, ov)
	if err != nil {
		fmt.Println(err)
		return 2
	}
	fmt.Printf("loaded in %.1fs\n", secs)
	pkg := P.Pkgs[engine.RepoMod+"/"+*pkgRel]
	if pkg == nil {
		fmt.Println("package not loaded")
		return 2
	}
	fn := pkg.Func(*fnName)
	if fn == nil {
		fmt.Println("no such function")
		return 2
	}
	s := explore.Run(P, fn, explore.Opts{Workers: *workers, MaxPaths: *maxPaths, Verbose: *verbose, Thorough: *thorough, CrossCheck: *cross, Deadline: 30 * time.Minute})
	fmt.Printf("paths=%d %v decisions=%d queries=%d solver=%.2fs wall=%.2fs steps=%d truncated=%q\n", s.Paths, s.ByStatus, s.Decisions, s.Queries, s.SolverSec, s.WallSec, s.Steps, s.Truncated)
	for _, id := range sortedAssertIDs(s) {
		a := s.Asserts[id]
		fmt.Printf("  assert %-44s checked=%d discharged=%d concrete-ok=%d violated=%d unknown=%d hunt-unknown=%d\n", id, a.Checked, a.Discharged, a.ConcreteOK, a.Violated, a.Unknown, a.HuntUnknown)
	}
	for _, k := range explore.SortedKeys(s.Unsupported) {
		fmt.Printf("  UNSUPPORTED x%d: %s\n", s.Unsupported[k], k)
	}
	for _, k := range explore.SortedKeys(s.Undecided) {
		fmt.Printf("  UNDECIDED x%d: %s\n", s.Undecided[k], k)
	}
	for _, e := range s.EngineErrs {
		fmt.Printf("  ENGINE-ERROR: %s\n", trunc(e, 1500))
	}
	fmt.Printf("  reached: %v\n", s.Reached)
	for j, v := range s.Violations {
		if j >= 5 {
			break
		}
		fmt.Printf("  VIOLATION-CANDIDATE %s %s choices=%v model=%v\n", v.AssertID, v.Why, v.Choices, modelStrings(v.Model))
	}
	return 0
}

func cmdReplay(file string) int {
	var rf ReplayFile
	b, err := ioutil.ReadFile(file)
	if err != nil || json.Unmarshal(b, &rf) != nil {
		fmt.Println("cannot read replay file", file)
		return 2
	}
	_, ov, _ := discover()
	abs, _ := filepath.Abs(file)
	res, logs, err := runNative(rf.Pkg, ov, []string{abs})
	if err != nil {
		fmt.Println(err)
		return 2
	}
	r, ok := res[abs]
	if !ok {
		fmt.Println("no result\n" + logs)
		return 2
	}
	out, _ := json.MarshalIndent(r, "", " ")
	fmt.Println(string(out))
	if nativeFails(r) {
		fmt.Printf("VIOLATION property=%s replay=%s\n", rf.Property, abs)
		return 1
	}
	fmt.Println("replay passed (no assertion failed)")
	return 0
}

func main() {
	if len(os.Args) < 2 {
		fmt.Println("usage: gosym check|run|replay|list ...")
		os.Exit(2)
	}
	switch os.Args[1] {
	case "check":
		fs := flag.NewFlagSet("check", flag.ExitOnError)
		tier := fs.String("tier", envOr("VERIF_TIER", "quick"), "")
		if len(os.Args) < 3 {
			os.Exit(2)
		}
		fs.Parse(os.Args[3:])
		os.Exit(cmdCheck(os.Args[2], *tier))
	case "run":
		os.Exit(cmdRun(os.Args[2:]))
	case "replay":
		os.Exit(cmdReplay(os.Args[2]))
	case "list":
		hs, _, _ := discover()
		for _, h := range hs {
			fmt.Printf("%s %s %s thoroughOnly=%v\n", h.Prop, h.PkgRel, h.Name, h.Thorough)
		}
	default:
		fmt.Println("unknown command")
		os.Exit(2)
	}
}
