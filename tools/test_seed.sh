#!/bin/bash
# usage: test_seed.sh <seed dir name under /verif/seeded> [props...]
# Applies the seeded patch to a scratch worktree of /repo HEAD and runs the quick checks of the given
# properties (default: the seed's own property) against it.  Never touches /repo.
S=$1; shift
D=/verif/seeded/$S
P=$(python3 -c "import json;print(json.load(open('$D/meta.json'))['property'])")
PROPS=${@:-$P}
WT=/tmp/seedrun_${S}_$$
OUT=/tmp/seedout_${S}_$$
git -C /repo worktree add -f --detach $WT HEAD >/dev/null 2>&1 || exit 2
trap "git -C /repo worktree remove --force $WT >/dev/null 2>&1; rm -rf $WT; [ -z \"$KEEP_OUT\" ] && rm -rf $OUT" EXIT
if git -C $WT apply --check $D/patch.diff 2>/dev/null; then
  git -C $WT apply $D/patch.diff
elif [ -f $D/patch_rebased.diff ] && git -C $WT apply --check $D/patch_rebased.diff 2>/dev/null; then
  # a seed made against the pinned commit may touch lines changed by a later fix: commit
  git -C $WT apply $D/patch_rebased.diff; echo "$S: using patch_rebased.diff"
else
  echo "$S: PATCH DOES NOT APPLY to current HEAD"; exit 3
fi
mkdir -p $OUT
for p in $PROPS; do
  VERIF_REPO=$WT VERIF_OUT=$OUT timeout 1500 /verif/bin/gosym check $p > $OUT/$p.log 2>&1
  rc=$?
  nv=$(grep -c "^VIOLATION" $OUT/$p.log)
  first=$(grep -A1 "^VIOLATION" $OUT/$p.log | grep "assert=" | head -1 | sed 's/.*assert=\([^ ]*\).*/\1/')
  echo "$S check=$p exit=$rc violations=$nv first_assert=$first $(grep -c INCONCLUSIVE $OUT/$p.log | sed 's/^/inconclusive=/')"
done
