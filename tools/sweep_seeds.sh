#!/bin/bash
# runs the quick check of every confirmed seed's property against the seeded change (isolated worktrees) and records the
# outcome.  usage: sweep_seeds.sh [glob of seed names, default *]   (results of other seeds are kept)
PAT=${1:-*}
OUT=/verif/seeded/RESULTS.txt
touch $OUT
: > $OUT.tmp
for d in /verif/seeded/$PAT/; do
  s=$(basename $d)
  [ -f $d/patch.diff ] || continue
  /verif/tools/test_seed.sh $s 2>&1 | grep "check=" >> $OUT.tmp
done
python3 - <<'PY'
import re,json,os
res={}
for f in ['/verif/seeded/RESULTS.txt','/verif/seeded/RESULTS.txt.tmp']:
    if os.path.exists(f):
        for l in open(f):
            m=re.match(r'(\S+) check=(\S+) exit=(\d+) violations=(\d+) first_assert=(\S*)',l)
            if m: res[m.group(1)]=l.rstrip('\n')
open('/verif/seeded/RESULTS.txt','w').write('\n'.join(res[k] for k in sorted(res))+'\n')
os.remove('/verif/seeded/RESULTS.txt.tmp')
for s,l in res.items():
    m=re.match(r'(\S+) check=(\S+) exit=(\d+) violations=(\d+) first_assert=(\S*)',l)
    mp=f'/verif/seeded/{s}/meta.json'
    if not os.path.exists(mp): continue
    j=json.load(open(mp))
    if m.group(3)=='1':
        j['detected_by']=[{'check':m.group(2),'first_failing_assertion':m.group(5),'violations_replayed':int(m.group(4))}]
    else:
        j['detected_by']=[]
    j['ran']=f'tools/test_seed.sh {s}  ->  exit={m.group(3)}'
    json.dump(j,open(mp,'w'),indent=1)
PY
