#!/bin/bash
# runs the quick check of every confirmed seed's property against the seeded change (isolated worktrees) and records the outcome
OUT=/verif/seeded/RESULTS.txt
: > $OUT.tmp
for d in /verif/seeded/*/; do
  s=$(basename $d)
  [ -f $d/patch.diff ] || continue
  /verif/tools/test_seed.sh $s 2>&1 | grep "check=" >> $OUT.tmp
done
mv $OUT.tmp $OUT
python3 - <<'PY'
import json,re,glob
res={}
for l in open('/verif/seeded/RESULTS.txt'):
    m=re.match(r'(\S+) check=(\S+) exit=(\d+) violations=(\d+) first_assert=(\S*)',l)
    if m: res[m.group(1)]=(m.group(2),int(m.group(3)),int(m.group(4)),m.group(5))
for f in glob.glob('/verif/seeded/*/meta.json'):
    s=f.split('/')[-2]
    m=json.load(open(f))
    if s in res:
        chk,ex,nv,fa=res[s]
        m['detected_by']=[{"check":chk,"exit":ex,"violations":nv,"first_failing_assertion":fa}] if ex==1 else []
        m['ran']="tools/test_seed.sh %s : quick check of %s against a scratch worktree of /repo HEAD with the patch applied (VERIF_REPO), exit=%d"%(s,chk,ex)
    json.dump(m,open(f,'w'),indent=1)
PY
