#!/bin/bash
# usage: confirm_seed.sh <prop> <mN>   — confirms a seeded change in a scratch worktree and stores it under /verif/seeded/
set -u
P=$1; M=$2
SRC=/tmp/wt/$P/OUT/$M
DST=/verif/seeded/$P-$M
WT=/tmp/confirm_${P}_${M}_$$
export GOFLAGS=-mod=mod GOPROXY=off GOSUMDB=off GOTOOLCHAIN=local
[ -f $SRC/patch.diff ] || { echo "no patch in $SRC"; exit 2; }
git -C /repo worktree add -f --detach $WT HEAD >/dev/null 2>&1 || { echo "worktree failed"; exit 2; }
cleanup() { git -C /repo worktree remove --force $WT >/dev/null 2>&1; rm -rf $WT; }
trap cleanup EXIT
cd $WT
DEMODIR=$(cat $SRC/DEMO_DIR.txt | tr -d '\n ')
DEMO=$(ls $SRC/*_test.go | head -1)
LOG=$(mktemp)
res() { echo "$1" | tee -a $LOG; }
# 1. demo passes without the patch
cp $DEMO $WT/$DEMODIR/zz_seed_demo_test.go
if go test -vet=off -count=1 -run 'Seed' ./$DEMODIR/ >>$LOG 2>&1; then res "demo_without_patch=pass"; else res "demo_without_patch=FAIL"; fi
rm $WT/$DEMODIR/zz_seed_demo_test.go
# 2. patch applies, builds, suite passes
if git apply $SRC/patch.diff >>$LOG 2>&1; then res "apply=ok"; else res "apply=FAIL"; fi
if go build ./... >>$LOG 2>&1; then res "build=ok"; else res "build=FAIL"; fi
if go test -vet=off -count=1 ./... >>$LOG 2>&1; then res "suite_with_patch=pass"; else res "suite_with_patch=FAIL"; fi
# 3. demo fails with the patch
cp $DEMO $WT/$DEMODIR/zz_seed_demo_test.go
if go test -vet=off -count=1 -run 'Seed' ./$DEMODIR/ >>$LOG 2>&1; then res "demo_with_patch=PASS(unexpected)"; else res "demo_with_patch=fail(expected)"; fi
OK=1
grep -q "demo_without_patch=pass" $LOG && grep -q "apply=ok" $LOG && grep -q "build=ok" $LOG && grep -q "suite_with_patch=pass" $LOG && grep -q "demo_with_patch=fail" $LOG || OK=0
if [ $OK = 1 ]; then
  mkdir -p $DST
  cp $SRC/patch.diff $DST/patch.diff
  cp $DEMO $DST/zz_seed_demo_test.go
  python3 - "$SRC/meta.json" "$DST/meta.json" "$P" "$DEMODIR" <<'PY'
import json,sys
src,dst,prop,demodir=sys.argv[1:5]
try: m=json.load(open(src))
except Exception: m={}
out={"property":prop,"summary":m.get("summary",""),"needs":m.get("needs",""),"files":m.get("files",[]),"demo_dir":demodir,
 "demo_cmd":m.get("demo_cmd",""),
 "confirmed_by":"tools/confirm_seed.sh in a scratch worktree of /repo HEAD: demo passes without patch; patch applies; go build ./... ok; go test -vet=off -count=1 ./... passes with patch; demo fails with patch",
 "detected_by":[]}
json.dump(out,open(dst,"w"),indent=1)
PY
  echo "CONFIRMED $P-$M"
else
  echo "NOT CONFIRMED $P-$M (log $LOG)"; tail -30 $LOG
fi
