#!/bin/bash
# usage: check_at.sh <commit> <prop>...   — runs the quick checks against a scratch worktree of /repo at <commit>
C=$1; shift
WT=/tmp/checkat_${C}_$$; OUT=/tmp/checkat_out_${C}_$$
git -C /repo worktree add -f --detach $WT $C >/dev/null 2>&1 || exit 2
trap "git -C /repo worktree remove --force $WT >/dev/null 2>&1; rm -rf $WT $OUT" EXIT
mkdir -p $OUT
for p in "$@"; do
  VERIF_REPO=$WT VERIF_OUT=$OUT timeout 1500 /verif/bin/gosym check $p > $OUT/$p.log 2>&1; rc=$?
  echo "commit=$C check=$p exit=$rc violations=$(grep -c '^VIOLATION' $OUT/$p.log) asserts=$(grep -A1 '^VIOLATION' $OUT/$p.log | grep -o 'assert=[^ ]*' | sort -u | tr '\n' ' ')"
done
