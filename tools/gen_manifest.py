#!/usr/bin/env python3
"""Generates /verif/MANIFEST.json from the table below (claimed checks) + not_applicable for the rest."""
import json, subprocess, os
ids=[json.loads(l)['id'] for l in open('/verif/properties.jsonl')]
COMMON_NOTE=("Trusted base: gosym (the SSA symbolic interpreter under /verif/gosym), go/ssa of x/tools v0.29.0, z3 4.8.12 "
 "(hard queries: portfolio z3/z3 5.1/cvc5; thorough tier re-checks every assertion query on z3 5.1 and cvc5). "
 "Bounded: only the shapes/ranges written in the harness sources are covered. Dependency code is replaced by the stubs listed in the evidence "
 "(amino codec as an injective opaque token, hashes/time formatting/logging as stated in DESIGN.md §3.6). ")
CLAIMED={
 "C17": dict(text="Bounded symbolic execution of the gov handler (MsgChangeParam, MsgDAOTransfer), Keeper.ModifyParam, VerifyACL, ACL.GetOwner, Subspace.Update/Set/checkType and the DAO transfer/burn paths with the real auth keeper: sender in {owner of the key, owner of another key, stranger, nil}, parameter keys of two subspaces including the ACL itself and the DAO owner, symbolic new values, an ACL take-over attempt, a wrong-typed value, an ownership hand-over followed by a change attempt of old/new owner, DAO balance and amount symbolic (including more than the balance, transfer to the DAO account itself).",
   note="Bounds: 6 parameters in 2 subspaces (auth, gov), 3 senders + nil, one or two messages. Parameter values travel as opaque codec tokens: JSON syntax of values is not modelled (a value of a different type is treated as a decode error). MsgUpgrade and os.Exit paths for unknown subspaces are not covered (unreachable for non-empty senders).", ref="§4 C17"),
 "C18": dict(text="Bounded symbolic execution of the real types/int.go, uint.go, decimal.go, staking.go: every assertion (exact result, rounding rule stated without division, panic-iff-out-of-range, operands unchanged) is decided by the solver for ALL operand values in the full 255/256/315-bit range; multiplicative operations with one operand from a 16/18-element boundary set (linear), plus both-symbolic bug-hunting queries. Counterexamples are replayed natively before being reported.",
   note="Not covered: decimal text conversion (String/NewDecFromStr/ParseCoin), Coins set algebra (planned), products/quotients of two arbitrary operands beyond bug hunting. Known findings: Dec.Quo / Dec.QuoRoundUp double rounding (known_findings.txt).", ref="§4 C18"),
 "C16": dict(text="Bounded symbolic execution of store/types/utils.go (PrefixEndBytes, InclusiveEndBytes), store/prefix, store/gaskv and both gas meters over a fake leaf store: prefix bytes, keys, iterator bounds, meter state (consumed, limit) and cost tables are symbolic; the solver decides isolation, exact gas, the exact out-of-gas/overflow point and result transparency for every value inside the bounds.",
   note="Bounds: prefix 1-3 bytes, keys 0-4 bytes, parent 2-3 entries, values 0-3 bytes, per-byte costs <= 2^60. Not covered: tracekv JSON lines, stackings with cachekv (see C15), gas when cost*len overflows uint64.", ref="§4 C16"),
 "C15": dict(text="Bounded symbolic execution of store/cachekv (store.go, memiterator.go, mergeiterator.go) + container/list over a fake parent: programs of 2 cache operations (Set/Delete/Get/Has/Iterator/ReverseIterator with symbolic 1-byte keys and bounds) followed by an observation, Write or discard, and depth-2 nesting; every read/iteration is compared with an overlay model by one solver query per assertion.",
   note="Bounds: keys 1 byte (all 256 values symbolic, so every ordering/equality pattern is covered but not multi-byte prefix relations), parent 0-1 entries quick / 0-2 thorough, 2 operations + 1 observation. Goroutine interleavings and data races are NOT covered (sequential engine): that clause of C15 is outside the claim.", ref="§4 C15"),
 "C07": dict(text="Bounded symbolic execution of the real pos keeper (slash, validateSlash, removeValidatorTokens, burnStakedTokens, ForceValidatorUnstake, handleDoubleSign, burnValidators, BeginBlocker) together with the real auth keeper/bank/supply, params subspace and store wrappers: stake, balance, reported power and evidence age are symbolic, fraction from a 7-element boundary set, validator in 4 lifecycle stages reached through the real API; exact burn, pool and supply deltas, force-unstake and tombstoning are solver-decided.",
   note="Bounds: stake/balance < 2^60, power < 2^40, 3 accounts, 2 validators, one or two slashes per block. BeginBlocker panics on evidence it is meant to ignore (unknown/unstaked/expired) are recorded as observations, not violations.", ref="§4 C07"),
 "C08": dict(text="Bounded symbolic execution of handleValidatorSignature with everything below it (signing info, missed-block ring, MinSignedPerWindow rounding, slash, jail, clearMissedArray): one vote from an arbitrary consistent window state (window 1-3, every ring content, symbolic start height / offset / block height / vote bit, 4 validator stages, 6 min-signed fractions incl. rounding ties) and bounded histories of W+3 symbolic votes from a fresh validator.",
   note="Bounds: window <= 3 (4 in thorough), offsets <= 1000, heights <= 200, histories <= 6 votes. Larger windows are outside the claim (the one-step check is inductive for the covered window sizes).", ref="§4 C08"),
 "C02": dict(text="Bounded symbolic execution of the real bank (SendCoins, SubtractCoins, AddCoins, MintCoins, BurnCoins, supply) and of the pos operations that move tokens (stake via keeper and via the MsgStake handler, begin/finish unstake, forced unstake, slash, fee distribution, award minting): after each operation from API-constructed states with symbolic balances/amounts the solver decides supply == sum of all balances, no negative balance, and the exact supply delta (awards +, burns -, 0 otherwise).",
   note="Bounds: 3 user accounts + fee collector + staked pool + pos module accounts, one denomination, amounts < 2^61, one operation (two for fee/award blocks) per history. Not yet covered here: gov DAO transfer/burn (see C17 when claimed), ante fee deduction (C03).", ref="§4 C02/C04/C10"),
 "C04": dict(text="Same environment as C02: after stake (keeper and MsgStake handler, new and re-stake after a forced unstake), begin-unstake, maturity at EndBlock, forced unstake, slash in 4 lifecycle stages, awards and fee rewards, the solver decides pool balance == sum of recorded stake of all non-unstaked validators and the exact account/pool/record deltas of staking and unstaking.",
   note="Bounds: 2-3 validators, symbolic stake < 2^60, one operation per history. Direct sends to the pool address are covered by C02's send harness only.", ref="§4 C02/C04/C10"),
 "C05": dict(text="Bounded symbolic execution of EndBlocker/UpdateTendermintValidators (power index iteration, previous-state power map, no-longer-staked sorting) after histories built with the real handlers and keeper: 2-3 validators with symbolic stakes (ties included), MaxValidators 1-3, EndBlock / one of 8 staking-state changes (stake, begin-unstake, jail, jail+unjail, symbolic slash, forced unstake, jail+unstake+unjail, unstaking+slash+maturity) / EndBlock twice; every batch is applied to a reference model of Tendermint's ValidatorSet applicability rules and the resulting set is compared with the declarative top-N of staked, unjailed validators.",
   note="Bounds: <= 3 validators, stakes in [10^6, 6*10^6], MaxValidators <= 3, one state change between EndBlocks. Tendermint's own ValidatorSet code is replaced by the reference model in the harness (duplicate key, removal of unknown, negative power). InitGenesis batches are not covered yet.", ref="§4 C05"),
 "C06": dict(text="Bounded symbolic execution of the pos handlers (MsgStake, MsgBeginUnstake, MsgUnjail), slash, ForceValidatorUnstake and EndBlocker from 6 lifecycle stages reached through the real API with symbolic stake/balance/amount: legal status transitions only, power index == staked-unjailed validators under the key of their current stake, every unstaking validator queued at its completion time, minimum stake held, release and payout at exactly the first EndBlock at or after the completion time (symbolic nanosecond offsets, two validators maturing around the same instant, slash while unstaking, re-queue after a forced unstake).",
   note="Bounds: 2-3 validators, one message/slash per history (3-4 for the maturity and requeue histories), stake < 2^50. FormatTimeBytes (time key) is replaced by an order-isomorphic encoding: that the real ASCII format orders like time is an assumption (years 0-9999).", ref="§4 C06"),
 "C09": dict(text="Bounded symbolic execution of handleMsgUnjail/validateUnjailMessage/UnjailValidator/JailValidator/SetStakedValidator and the double-sign path: MsgUnjail from 6 lifecycle stages with symbolic jailed-until offset, tombstone flag, stake above/below a raised minimum, known/unknown sender; jailed validators are absent from the reference Tendermint set from the next update on, regain exactly floor(stake/10^6) after unjail, and a double-sign conviction tombstones for ever (unjail refused for any later block time up to 5000 years).",
   note="Bounds: 2-3 validators, symbolic stake < 2^50, jailed-until within +-5 s of block time. Downtime as a jailing cause is covered by C08's harnesses, not repeated here.", ref="§4 C09"),
 "C10": dict(text="Bounded symbolic execution of BeginBlocker (rewardFromFees, mintValidatorAwards, mint, SetPreviousProposer) with the real bank: symbolic fees and award amounts, 0-2 awards to the same/different addresses, proposer known / any-stage validator / unknown, two consecutive blocks; exact balances, supply delta, emptied queue and collector are solver-decided.",
   note="Bounds: <= 2 queued awards, fees < 4*10^6, awards < 2^50, 3 accounts.", ref="§4 C10"),
}
ENGINE="gosym"
checks=[]
for pid in ids:
    if pid in CLAIMED:
        c=CLAIMED[pid]
        checks.append({"property_id":pid,
          "quick_cmd":f"/verif/bin/gosym check {pid} --tier quick",
          "thorough_cmd":f"/verif/bin/gosym check {pid} --tier thorough",
          "evidence_file":f"/verif/evidence/{pid}.json",
          "replay_cmd_template":"/verif/bin/gosym replay {path}",
          "engine":ENGINE,
          "level_claimed":{"category":"model_checking","text":c["text"],"design_ref":c["ref"]},
          "level_note":COMMON_NOTE+c["note"],
          "technique":"bounded symbolic execution of the real go/ssa code + SMT (z3/cvc5), counterexample replay on the native build"})
REASONS={}
na=[{"property_id":p,"reason":REASONS.get(p,"check not built yet in this session (engine exists; harness pending) — not claimed")} for p in ids if p not in CLAIMED]
m={"version":1,
 "setup_cmd":"cd /verif/gosym && GOFLAGS=-mod=mod GOPROXY=off GOSUMDB=off GOTOOLCHAIN=local go build -o /verif/bin/gosym ./cmd/gosym",
 "hooks":{"guard":"verif","enable":"none needed: harnesses are injected with a go/packages overlay (engine) and `go test -overlay` (native replay); no hook is committed to /repo","baseline_off_cmd":"cd /repo && go build ./... && go test -vet=off -count=1 -timeout 25m ./...","source_commits":[],"add_only":True},
 "engines":[{"name":"gosym","path":"/verif/gosym","serves_properties":sorted(CLAIMED),"kind_free_text":"bounded symbolic execution of /repo's go/ssa form (fork of x/tools ssa/interp with symbolic values) + SMT (z3, cvc5); every sat model is replayed against the native build before a VIOLATION is printed"}],
 "checks":checks,
 "notes":"see DESIGN.md; known_findings.txt lists known/fixed defects; seeded/ holds confirmed seeded changes and which checks catch them",
 "not_applicable":na}
json.dump(m,open('/verif/MANIFEST.json','w'),indent=1)
print("claimed",sorted(CLAIMED),"na",len(na))
