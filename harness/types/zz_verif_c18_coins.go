package types

import (
	"math/big"

	zz "github.com/pokt-network/posmint/zzverif"
)

var vDenoms = []string{"aaa", "bbb", "ccc"}

// vCoins builds a VALID coin set through NewCoins: each denomination of the pool present or not, symbolic positive amounts.
func vCoins(name string, n int) (Coins, []*big.Int) {
	var cs []Coin
	amts := make([]*big.Int, len(vDenoms))
	hi := new(big.Int).Lsh(big.NewInt(1), 200)
	for i := 0; i < n; i++ {
		amts[i] = big.NewInt(0)
		if zz.Choice(name+".has."+vDenoms[i], 2) == 1 {
			a := zz.Big(name+"."+vDenoms[i], big.NewInt(1), hi)
			amts[i] = a
			cs = append(cs, Coin{Denom: vDenoms[i], Amount: NewIntFromBigInt(new(big.Int).Set(a))})
		}
	}
	for i := n; i < len(vDenoms); i++ {
		amts[i] = big.NewInt(0)
	}
	// present them in reverse order: NewCoins must sort
	for i, j := 0, len(cs)-1; i < j; i, j = i+1, j-1 {
		cs[i], cs[j] = cs[j], cs[i]
	}
	return NewCoins(cs...), amts
}

func vAmountsOf(c Coins, n int) []*big.Int {
	out := make([]*big.Int, len(vDenoms))
	for i := range vDenoms {
		out[i] = big.NewInt(0)
	}
	for _, coin := range c {
		for i, d := range vDenoms {
			if coin.Denom == d {
				out[i] = coin.Amount.BigInt()
			}
		}
	}
	return out
}

// vCanonical: sorted by denomination, no duplicates, no zero or negative amounts.
func vCanonical(c Coins) bool {
	for i, coin := range c {
		if coin.Amount.BigInt().Sign() <= 0 {
			return false
		}
		if i > 0 && !(c[i-1].Denom < coin.Denom) {
			return false
		}
	}
	return true
}

func vSameAmounts(c Coins, want []*big.Int) bool {
	got := vAmountsOf(c, len(vDenoms))
	ok := true
	for i := range want {
		ok = zz.And(ok, got[i].Cmp(want[i]) == 0)
	}
	return ok
}

// VerifC18_Coins: Add / Sub / SafeSub / comparisons / AmountOf on valid coin sets over a 2-denomination (3 thorough)
// pool with symbolic amounts: canonical results, per-denomination arithmetic, Add and Sub inverse, SafeSub flag exact,
// comparisons as documented, operands never mutated.
func VerifC18_Coins() {
	n := 2
	if zz.Thorough() {
		n = 3
	}
	a, am := vCoins("a", n)
	b, bm := vCoins("b", n)
	zz.Assert("C18.coins.newcoins-canonical", vCanonical(a) && vCanonical(b) && a.IsValid() && b.IsValid())
	lenA, lenB := len(a), len(b)
	sum := a.Add(b)
	wantSum := make([]*big.Int, len(vDenoms))
	for i := range wantSum {
		wantSum[i] = new(big.Int).Add(am[i], bm[i])
	}
	zz.Assert("C18.coins.add-per-denomination", vSameAmounts(sum, wantSum))
	zz.Assert("C18.coins.add-canonical", vCanonical(sum) && sum.IsValid())
	zz.Assert("C18.coins.add-then-sub-is-identity", vSameAmounts(sum.Sub(b), am) && vCanonical(sum.Sub(b)))
	diff, neg := a.SafeSub(b)
	anyNeg := false
	allGTE, allGT, anyGT, anyGTE := true, lenA > 0, false, false
	for i := range vDenoms {
		if am[i].Cmp(bm[i]) < 0 {
			anyNeg = true
		}
		if bm[i].Sign() > 0 { // denominations of b
			if am[i].Cmp(bm[i]) < 0 {
				allGTE = false
			}
			if am[i].Cmp(bm[i]) <= 0 {
				allGT = false
			}
			if am[i].Sign() > 0 {
				if am[i].Cmp(bm[i]) > 0 {
					anyGT = true
				}
				if am[i].Cmp(bm[i]) >= 0 {
					anyGTE = true
				}
			}
		}
	}
	zz.Assert("C18.coins.safesub-flag-iff-some-amount-negative", neg == anyNeg)
	if !neg {
		wantDiff := make([]*big.Int, len(vDenoms))
		for i := range wantDiff {
			wantDiff[i] = new(big.Int).Sub(am[i], bm[i])
		}
		zz.Assert("C18.coins.sub-per-denomination", vSameAmounts(diff, wantDiff) && vCanonical(diff))
	}
	zz.Assert("C18.coins.sub-panics-iff-negative", vPanics(func() { a.Sub(b) }) == anyNeg)
	if lenB == 0 {
		allGTE = true
	}
	if lenB == 0 && lenA > 0 {
		allGT = true
	}
	zz.Assert("C18.coins.isallgte", a.IsAllGTE(b) == allGTE)
	zz.Assert("C18.coins.isallgt", a.IsAllGT(b) == allGT)
	zz.Assert("C18.coins.isalllt-is-converse", a.IsAllLT(b) == b.IsAllGT(a) && a.IsAllLTE(b) == b.IsAllGTE(a))
	zz.Assert("C18.coins.isanygt", a.IsAnyGT(b) == anyGT)
	zz.Assert("C18.coins.isanygte", a.IsAnyGTE(b) == anyGTE)
	same := true
	for i := range vDenoms {
		if am[i].Cmp(bm[i]) != 0 {
			same = false
		}
	}
	// known finding coins-isequal-panics-on-different-denoms: two sets of the same length whose denominations differ at
	// some sorted position make Coins.IsEqual panic instead of returning false (behaviour pinned by TestEqualCoins).
	differentDenoms := false
	if lenA == lenB {
		for i := range a {
			if a[i].Denom != b[i].Denom {
				differentDenoms = true
			}
		}
	}
	if zz.Known("coins-isequal-panics-on-different-denoms") && differentDenoms {
		zz.Reach("C18.coins.isequal.known-region")
	} else {
		var eq bool
		zz.Assert("C18.coins.isequal-does-not-panic", !vPanics(func() { eq = a.IsEqual(b) }))
		zz.Assert("C18.coins.isequal", eq == same)
	}
	for i, d := range vDenoms {
		zz.Assert("C18.coins.amountof", a.AmountOf(d).BigInt().Cmp(am[i]) == 0)
	}
	// operands unchanged
	zz.Assert("C18.coins.operands-unchanged", len(a) == lenA && len(b) == lenB && vSameAmounts(a, am) && vSameAmounts(b, bm) && vCanonical(a) && vCanonical(b))
	zz.Reach("C18.coins")
}

// VerifC18_CoinsZeroAmounts: zero-amount coins are dropped wherever the API accepts them - NewCoins over all three
// denominations in a symbolic argument order with amounts that may be zero (any number of them, adjacent or not), and
// Add with a sorted operand that carries zero-amount coins (the documented "{2A} + {0B} = {2A}" usage): the result is
// canonical and holds exactly the non-zero amounts.
func VerifC18_CoinsZeroAmounts() {
	hi := new(big.Int).Lsh(big.NewInt(1), 200)
	amts := make([]*big.Int, len(vDenoms))
	var cs []Coin
	for i, d := range vDenoms {
		amts[i] = big.NewInt(0)
		if zz.Choice("nonzero."+d, 2) == 1 {
			amts[i] = zz.Big("amount."+d, big.NewInt(1), hi)
		}
		cs = append(cs, Coin{Denom: d, Amount: NewIntFromBigInt(new(big.Int).Set(amts[i]))})
	}
	perms := [][]int{{0, 1, 2}, {0, 2, 1}, {1, 0, 2}, {1, 2, 0}, {2, 0, 1}, {2, 1, 0}}
	pm := perms[zz.Choice("argument_order", len(perms))]
	var set Coins
	zz.Assert("C18.coins.zero.newcoins-does-not-panic", !vPanics(func() { set = NewCoins(cs[pm[0]], cs[pm[1]], cs[pm[2]]) }))
	zz.Assert("C18.coins.zero.newcoins-canonical", vCanonical(set) && set.IsValid() && vSameAmounts(set, amts))
	// Add: a valid set plus a sorted operand with zero-amount coins
	a, am := vCoins("a", 2)
	b := Coins{cs[0], cs[1], cs[2]}
	var sum Coins
	zz.Assert("C18.coins.zero.add-does-not-panic", !vPanics(func() { sum = a.Add(b) }))
	want := make([]*big.Int, len(vDenoms))
	for i := range want {
		want[i] = new(big.Int).Add(am[i], amts[i])
	}
	zz.Assert("C18.coins.zero.add-canonical", vCanonical(sum) && sum.IsValid() && vSameAmounts(sum, want))
	zz.Reach("C18.coins.zero")
}
