package types

import (
	"math/big"

	zz "github.com/pokt-network/posmint/zzverif"
)

// ---- helpers (plain Go; run symbolically and natively) ----

var (
	vMaxInt  = new(big.Int).Sub(new(big.Int).Lsh(big.NewInt(1), 255), big.NewInt(1)) // 2^255-1
	vMinInt  = new(big.Int).Neg(vMaxInt)
	vMaxUint = new(big.Int).Sub(new(big.Int).Lsh(big.NewInt(1), 256), big.NewInt(1))
)

func vInRange(x *big.Int) bool { return x.Cmp(vMinInt) >= 0 && x.Cmp(vMaxInt) <= 0 }

// vPanics runs f and reports whether it panicked.
func vPanics(f func()) (p bool) {
	defer func() {
		if r := recover(); r != nil {
			p = true
		}
	}()
	f()
	return false
}

// VerifC18_IntAddSub: Int.Add / Int.Sub equal exact integer arithmetic and panic iff the exact result is out of range;
// operands are not mutated.
func VerifC18_IntAddSub() {
	a := zz.Big("a", vMinInt, vMaxInt)
	b := zz.Big("b", vMinInt, vMaxInt)
	a0, b0 := new(big.Int).Set(a), new(big.Int).Set(b)
	x, y := NewIntFromBigInt(a), NewIntFromBigInt(b)
	op := zz.Choice("op", 2)
	var exact *big.Int
	var got Int
	var panicked bool
	if op == 0 {
		exact = new(big.Int).Add(a0, b0)
		panicked = vPanics(func() { got = x.Add(y) })
	} else {
		exact = new(big.Int).Sub(a0, b0)
		panicked = vPanics(func() { got = x.Sub(y) })
	}
	zz.Assert("C18.int.addsub.panic-iff-overflow", panicked == !vInRange(exact))
	if !panicked {
		zz.Assert("C18.int.addsub.exact", got.BigInt().Cmp(exact) == 0)
	}
	zz.Assert("C18.int.addsub.operands-unchanged", x.BigInt().Cmp(a0) == 0 && y.BigInt().Cmp(b0) == 0)
	zz.Reach("C18.int.addsub")
}
