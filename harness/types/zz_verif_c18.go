package types

import (
	"math/big"

	zz "github.com/pokt-network/posmint/zzverif"
)

// ---- helpers (plain Go; run symbolically and natively) ----

var (
	vMaxInt  = new(big.Int).Sub(new(big.Int).Lsh(big.NewInt(1), 255), big.NewInt(1)) // 2^255-1
	vMinInt  = new(big.Int).Neg(vMaxInt)
	vMaxUint = new(big.Int).Sub(new(big.Int).Lsh(big.NewInt(1), 256), big.NewInt(1))
)

func vInRange(x *big.Int) bool { return x.Cmp(vMinInt) >= 0 && x.Cmp(vMaxInt) <= 0 }

// vPanics runs f and reports whether it panicked.
func vPanics(f func()) (p bool) {
	defer func() {
		if r := recover(); r != nil {
			p = true
		}
	}()
	f()
	return false
}

// VerifC18_IntAddSub: Int.Add / Int.Sub equal exact integer arithmetic and panic iff the exact result is out of range;
// operands are not mutated.
func VerifC18_IntAddSub() {
	a := zz.Big("a", vMinInt, vMaxInt)
	b := zz.Big("b", vMinInt, vMaxInt)
	a0, b0 := new(big.Int).Set(a), new(big.Int).Set(b)
	x, y := NewIntFromBigInt(a), NewIntFromBigInt(b)
	op := zz.Choice("op", 2)
	var exact *big.Int
	var got Int
	var panicked bool
	if op == 0 {
		exact = new(big.Int).Add(a0, b0)
		panicked = vPanics(func() { got = x.Add(y) })
	} else {
		exact = new(big.Int).Sub(a0, b0)
		panicked = vPanics(func() { got = x.Sub(y) })
	}
	zz.Assert("C18.int.addsub.panic-iff-overflow", panicked == !vInRange(exact))
	if !panicked {
		zz.Assert("C18.int.addsub.exact", got.BigInt().Cmp(exact) == 0)
	}
	zz.Assert("C18.int.addsub.operands-unchanged", x.BigInt().Cmp(a0) == 0 && y.BigInt().Cmp(b0) == 0)
	zz.Reach("C18.int.addsub")
}

// vBoundary returns one of a fixed set of boundary constants (forked by Choice).
func vBoundary(name string) *big.Int {
	p := func(n uint) *big.Int { return new(big.Int).Lsh(big.NewInt(1), n) }
	set := []*big.Int{
		big.NewInt(0), big.NewInt(1), big.NewInt(-1), big.NewInt(2), big.NewInt(-3),
		big.NewInt(1000000), new(big.Int).Set(precisionReuse), new(big.Int).Neg(precisionReuse),
		p(63), new(big.Int).Neg(p(64)), p(127), new(big.Int).Sub(p(128), big.NewInt(1)),
		new(big.Int).Neg(new(big.Int).Sub(p(128), big.NewInt(1))), p(254), new(big.Int).Set(vMaxInt), new(big.Int).Set(vMinInt),
	}
	return new(big.Int).Set(set[zz.Choice(name, len(set))])
}

func vSign(x *big.Int) int { return x.Sign() }

// vTruncDivOK checks q == trunc(a/b) declaratively: a = q*b + r, |r| < |b|, r has the sign of a (or is 0).
func vTruncDivOK(a, b, q *big.Int) bool {
	r := new(big.Int).Sub(a, new(big.Int).Mul(q, b))
	if new(big.Int).Abs(r).Cmp(new(big.Int).Abs(b)) >= 0 {
		return false
	}
	return r.Sign() == 0 || r.Sign() == a.Sign()
}

// VerifC18_IntMul: one operand fully symbolic, the other from the boundary set (keeps the product linear).
func VerifC18_IntMul() {
	a := zz.Big("a", vMinInt, vMaxInt)
	b := vBoundary("b")
	a0, b0 := new(big.Int).Set(a), new(big.Int).Set(b)
	x, y := NewIntFromBigInt(a), NewIntFromBigInt(b)
	if zz.Choice("swap", 2) == 1 {
		x, y = y, x
	}
	exact := new(big.Int).Mul(a0, b0)
	var got Int
	panicked := vPanics(func() { got = x.Mul(y) })
	zz.Assert("C18.int.mul.panic-iff-overflow", panicked == !vInRange(exact))
	if !panicked {
		zz.Assert("C18.int.mul.exact", got.BigInt().Cmp(exact) == 0)
	}
	zz.Reach("C18.int.mul")
}

// VerifC18T_IntMulBoth: both operands symbolic (non-linear; bug hunting only).
func VerifC18T_IntMulBoth() {
	a := zz.Big("a", vMinInt, vMaxInt)
	b := zz.Big("b", vMinInt, vMaxInt)
	exact := new(big.Int).Mul(a, b)
	x, y := NewIntFromBigInt(a), NewIntFromBigInt(b)
	var got Int
	panicked := vPanics(func() { got = x.Mul(y) })
	zz.Hunt("C18.int.mulboth.panic-iff-overflow", panicked == !vInRange(exact))
	_ = got
	zz.Reach("C18.int.mulboth")
}

// VerifC18_IntQuoMod: Quo truncates toward zero, Mod is the Euclidean remainder of math/big, both panic iff divisor is zero.
func VerifC18_IntQuoMod() {
	a := zz.Big("a", vMinInt, vMaxInt)
	b := vBoundary("b")
	x, y := NewIntFromBigInt(a), NewIntFromBigInt(b)
	var q, m Int
	pq := vPanics(func() { q = x.Quo(y) })
	pm := vPanics(func() { m = x.Mod(y) })
	zz.Assert("C18.int.quo.panic-iff-zero", pq == (b.Sign() == 0) && pm == (b.Sign() == 0))
	if !pq {
		zz.Assert("C18.int.quo.truncates", vTruncDivOK(a, b, q.BigInt()))
		zz.Assert("C18.int.quo.in-range", vInRange(q.BigInt()))
	}
	if !pm {
		mb := m.BigInt()
		// 0 <= m < |b| and (a - m) divisible by b
		zz.Assert("C18.int.mod.range", mb.Sign() >= 0 && mb.Cmp(new(big.Int).Abs(b)) < 0)
		d := new(big.Int).Sub(a, mb)
		zz.Assert("C18.int.mod.congruent", new(big.Int).Rem(d, b).Sign() == 0)
	}
	zz.Reach("C18.int.quomod")
}

// VerifC18_IntCompare: comparisons, sign predicates, Neg, Min/Max agree with exact integers.
func VerifC18_IntCompare() {
	a := zz.Big("a", vMinInt, vMaxInt)
	b := zz.Big("b", vMinInt, vMaxInt)
	x, y := NewIntFromBigInt(a), NewIntFromBigInt(b)
	c := a.Cmp(b)
	zz.Assert("C18.int.cmp.equal", x.Equal(y) == (c == 0))
	zz.Assert("C18.int.cmp.gt", x.GT(y) == (c > 0))
	zz.Assert("C18.int.cmp.gte", x.GTE(y) == (c >= 0))
	zz.Assert("C18.int.cmp.lt", x.LT(y) == (c < 0))
	zz.Assert("C18.int.cmp.lte", x.LTE(y) == (c <= 0))
	zz.Assert("C18.int.sign", x.Sign() == a.Sign() && x.IsZero() == (a.Sign() == 0) && x.IsNegative() == (a.Sign() < 0) && x.IsPositive() == (a.Sign() > 0))
	zz.Assert("C18.int.neg", x.Neg().BigInt().Cmp(new(big.Int).Neg(a)) == 0)
	mn, mx := MinInt(x, y).BigInt(), MaxInt(x, y).BigInt()
	if c <= 0 {
		zz.Assert("C18.int.minmax", mn.Cmp(a) == 0 && mx.Cmp(b) == 0)
	} else {
		zz.Assert("C18.int.minmax", mn.Cmp(b) == 0 && mx.Cmp(a) == 0)
	}
	zz.Assert("C18.int.cmp.operands-unchanged", x.BigInt().Cmp(a) == 0 && y.BigInt().Cmp(b) == 0)
	zz.Reach("C18.int.compare")
}

// VerifC18_IntInt64: Int64() returns the value iff it fits and panics otherwise; NewIntFromBigInt range check.
func VerifC18_IntInt64() {
	big300 := new(big.Int).Lsh(big.NewInt(1), 300)
	a := zz.Big("a", new(big.Int).Neg(big300), big300)
	var x Int
	pn := vPanics(func() { x = NewIntFromBigInt(a) })
	zz.Assert("C18.int.new.panic-iff-out-of-range", pn == !vInRange(a))
	if pn {
		zz.Reach("C18.int.int64.rejected")
		return
	}
	var v int64
	p := vPanics(func() { v = x.Int64() })
	fits := a.Cmp(big.NewInt(-1<<63)) >= 0 && a.Cmp(big.NewInt(1<<63-1)) <= 0
	zz.Assert("C18.int.int64.panic-iff-unfit", p == !fits && x.IsInt64() == fits)
	if !p {
		zz.Assert("C18.int.int64.value", big.NewInt(v).Cmp(a) == 0)
	}
	zz.Reach("C18.int.int64")
}

func vUintInRange(x *big.Int) bool { return x.Sign() >= 0 && x.Cmp(vMaxUint) <= 0 }

// VerifC18_Uint: Uint Add/Sub/Mul/Quo/Mod vs exact arithmetic; out of [0,2^256) panics.
func VerifC18_Uint() {
	a := zz.Big("a", big.NewInt(0), vMaxUint)
	op := zz.Choice("op", 4)
	var b *big.Int
	if op <= 1 {
		b = zz.Big("b", big.NewInt(0), vMaxUint)
	} else {
		b = new(big.Int).Abs(vBoundary("b"))
	}
	x, y := NewUintFromBigInt(a), NewUintFromBigInt(b)
	var got Uint
	var exact *big.Int
	var panicked bool
	switch op {
	case 0:
		exact = new(big.Int).Add(a, b)
		panicked = vPanics(func() { got = x.Add(y) })
	case 1:
		exact = new(big.Int).Sub(a, b)
		panicked = vPanics(func() { got = x.Sub(y) })
	case 2:
		exact = new(big.Int).Mul(a, b)
		panicked = vPanics(func() { got = x.Mul(y) })
	case 3:
		panicked = vPanics(func() { got = x.Quo(y) })
		zz.Assert("C18.uint.quo.panic-iff-zero", panicked == (b.Sign() == 0))
		if !panicked {
			zz.Assert("C18.uint.quo.truncates", vTruncDivOK(a, b, got.i))
		}
		zz.Reach("C18.uint.quo")
		return
	}
	zz.Assert("C18.uint.panic-iff-out-of-range", panicked == !vUintInRange(exact))
	if !panicked {
		zz.Assert("C18.uint.exact", got.i.Cmp(exact) == 0)
	}
	zz.Assert("C18.uint.operands-unchanged", x.i.Cmp(a) == 0 && y.i.Cmp(b) == 0)
	zz.Reach("C18.uint.arith")
}

// ---------------------------------------------------------------- Dec

var (
	vDecBound = new(big.Int).Sub(new(big.Int).Lsh(big.NewInt(1), 315), big.NewInt(1)) // |d| <= 2^315-1
	vDecMin   = new(big.Int).Neg(vDecBound)
	vPrec     = new(big.Int).Exp(big.NewInt(10), big.NewInt(18), nil)
)

func vDecInRange(x *big.Int) bool { return x.Cmp(vDecMin) >= 0 && x.Cmp(vDecBound) <= 0 }

// vHalfEvenOK: r == roundHalfEven(p / s) for s > 0, stated without division:
// |2(r*s - p)| <= s, and on an exact tie r is even.
func vHalfEvenOK(p, s, r *big.Int) bool {
	d := new(big.Int).Sub(new(big.Int).Mul(r, s), p)
	d2 := new(big.Int).Abs(new(big.Int).Lsh(d, 1))
	if d2.Cmp(s) > 0 {
		return false
	}
	if d2.Cmp(s) == 0 {
		return new(big.Int).Rem(r, big.NewInt(2)).Sign() == 0
	}
	return true
}

// vTruncOK: r == trunc(p / s) toward zero for s > 0.
func vTruncOK(p, s, r *big.Int) bool {
	rs := new(big.Int).Mul(r, s)
	if p.Sign() >= 0 {
		return rs.Cmp(p) <= 0 && new(big.Int).Add(rs, s).Cmp(p) > 0
	}
	return rs.Cmp(p) >= 0 && new(big.Int).Sub(rs, s).Cmp(p) < 0
}

// vCeilOK: r == ceil(p / s) for s > 0.
func vCeilOK(p, s, r *big.Int) bool {
	rs := new(big.Int).Mul(r, s)
	return rs.Cmp(p) >= 0 && new(big.Int).Sub(rs, s).Cmp(p) < 0
}

// VerifC18_DecChop: the three rounding kernels on an arbitrary scaled integer (full symbolic, division by the constant 10^18).
func VerifC18_DecChop() {
	big400 := new(big.Int).Lsh(big.NewInt(1), 400)
	p := zz.Big("p", new(big.Int).Neg(big400), big400)
	p0 := new(big.Int).Set(p)
	switch zz.Choice("kernel", 3) {
	case 0:
		r := chopPrecisionAndRoundNonMutative(p)
		zz.Assert("C18.dec.chop.half-even", vHalfEvenOK(p0, vPrec, r))
	case 1:
		r := chopPrecisionAndTruncateNonMutative(p)
		zz.Assert("C18.dec.chop.truncate", vTruncOK(p0, vPrec, r))
	case 2:
		r := chopPrecisionAndRoundUp(new(big.Int).Set(p))
		zz.Assert("C18.dec.chop.round-up", vCeilOK(p0, vPrec, r))
	}
	zz.Assert("C18.dec.chop.input-unchanged", p.Cmp(p0) == 0)
	zz.Reach("C18.dec.chop")
}

// VerifC18_DecAddSub: Add/Sub exact, panic iff |result| >= 2^315, comparisons.
func VerifC18_DecAddSub() {
	a := zz.Big("a", vDecMin, vDecBound)
	b := zz.Big("b", vDecMin, vDecBound)
	x, y := Dec{new(big.Int).Set(a)}, Dec{new(big.Int).Set(b)}
	var got Dec
	var exact *big.Int
	var panicked bool
	if zz.Choice("op", 2) == 0 {
		exact = new(big.Int).Add(a, b)
		panicked = vPanics(func() { got = x.Add(y) })
	} else {
		exact = new(big.Int).Sub(a, b)
		panicked = vPanics(func() { got = x.Sub(y) })
	}
	zz.Assert("C18.dec.addsub.panic-iff-overflow", panicked == !vDecInRange(exact))
	if !panicked {
		zz.Assert("C18.dec.addsub.exact", got.Int.Cmp(exact) == 0)
	}
	c := a.Cmp(b)
	zz.Assert("C18.dec.cmp", x.Equal(y) == (c == 0) && x.GT(y) == (c > 0) && x.GTE(y) == (c >= 0) && x.LT(y) == (c < 0) && x.LTE(y) == (c <= 0))
	zz.Assert("C18.dec.sign", x.IsZero() == (a.Sign() == 0) && x.IsNegative() == (a.Sign() < 0) && x.IsPositive() == (a.Sign() > 0))
	zz.Assert("C18.dec.addsub.operands-unchanged", x.Int.Cmp(a) == 0 && y.Int.Cmp(b) == 0)
	zz.Reach("C18.dec.addsub")
}

// vDecBoundary: boundary multipliers/divisors as raw 18-decimal integers.
func vDecBoundary(name string) *big.Int {
	s := func(v string) *big.Int { r, _ := new(big.Int).SetString(v, 10); return r }
	set := []*big.Int{
		big.NewInt(0), big.NewInt(1), big.NewInt(-1), big.NewInt(2), big.NewInt(3),
		s("500000000000000000"), s("-500000000000000000"), s("1000000000000000000"), s("-1000000000000000000"),
		s("1000000000000000001"), s("999999999999999999"), s("333333333333333333"), s("50000000000000000"), s("10000000000000000"),
		s("3000000000000000000"), s("1000000000000000000000000"), new(big.Int).Lsh(big.NewInt(1), 200), new(big.Int).Neg(new(big.Int).Lsh(big.NewInt(1), 255)),
	}
	return new(big.Int).Set(set[zz.Choice(name, len(set))])
}

// VerifC18_DecMul: Mul rounds half-even, MulTruncate truncates, MulInt exact; panic iff result out of range.
func VerifC18_DecMul() {
	a := zz.Big("a", vDecMin, vDecBound)
	b := vDecBoundary("b")
	x, y := Dec{new(big.Int).Set(a)}, Dec{new(big.Int).Set(b)}
	if zz.Choice("swap", 2) == 1 {
		x, y = y, x
	}
	p := new(big.Int).Mul(a, b)
	var got Dec
	switch zz.Choice("op", 3) {
	case 0:
		panicked := vPanics(func() { got = x.Mul(y) })
		if !panicked {
			zz.Assert("C18.dec.mul.half-even", vHalfEvenOK(p, vPrec, got.Int))
			zz.Assert("C18.dec.mul.in-range", vDecInRange(got.Int))
		} else {
			// a panic is only allowed when the correctly rounded result is out of range
			r := chopPrecisionAndRoundNonMutative(p)
			zz.Assert("C18.dec.mul.panic-only-on-overflow", !vDecInRange(r))
		}
	case 1:
		panicked := vPanics(func() { got = x.MulTruncate(y) })
		if !panicked {
			zz.Assert("C18.dec.multrunc.truncates", vTruncOK(p, vPrec, got.Int))
			zz.Assert("C18.dec.multrunc.in-range", vDecInRange(got.Int))
		} else {
			r := chopPrecisionAndTruncateNonMutative(p)
			zz.Assert("C18.dec.multrunc.panic-only-on-overflow", !vDecInRange(r))
		}
	case 2:
		// MulInt: Dec * Int exact
		if !vInRange(b) {
			zz.Reach("C18.dec.mulint.skip")
			return
		}
		xi := Dec{new(big.Int).Set(a)}
		panicked := vPanics(func() { got = xi.MulInt(NewIntFromBigInt(new(big.Int).Set(b))) })
		zz.Assert("C18.dec.mulint.panic-iff-overflow", panicked == !vDecInRange(p))
		if !panicked {
			zz.Assert("C18.dec.mulint.exact", got.Int.Cmp(p) == 0)
		}
	}
	zz.Reach("C18.dec.mul")
}

// vKnownQuo is the trigger region of the known finding dec-quo-double-rounding (see DESIGN.md §6):
// the quotient d*10^36/d2 is inexact AND the truncated quotient sits exactly on a rounding tie /
// on a multiple of 10^18.  Outside this region the assertion stays in force.
func vKnownQuoRegion(num, den *big.Int, mode int) bool {
	q, r := new(big.Int).QuoRem(num, den, new(big.Int))
	if r.Sign() == 0 {
		return false
	}
	low := new(big.Int).Rem(new(big.Int).Abs(q), vPrec)
	if mode == 0 { // half-even: truncated quotient exactly on the tie and its integer part even (code rounds down, exact value is above the tie)
		ip := new(big.Int).Quo(new(big.Int).Abs(q), vPrec)
		return low.Cmp(new(big.Int).Quo(vPrec, big.NewInt(2))) == 0 && new(big.Int).Rem(ip, big.NewInt(2)).Sign() == 0
	}
	// round-up: truncated quotient exactly a multiple of 10^18 while the true quotient is not
	return low.Sign() == 0 && num.Sign()*den.Sign() > 0
}

// VerifC18_DecQuo: Quo rounds half-even, QuoTruncate truncates, QuoRoundUp rounds toward +inf; divisor from the boundary set.
func VerifC18_DecQuo() {
	a := zz.Big("a", vDecMin, vDecBound)
	b := vDecBoundary("b")
	if b.Sign() == 0 {
		x := Dec{new(big.Int).Set(a)}
		zz.Assert("C18.dec.quo.zero-divisor-panics", vPanics(func() { x.Quo(Dec{big.NewInt(0)}) }))
		zz.Reach("C18.dec.quo.zero")
		return
	}
	x, y := Dec{new(big.Int).Set(a)}, Dec{new(big.Int).Set(b)}
	// exact quotient = a*10^18 / b  (as a rational); compare with num/den where den > 0
	num := new(big.Int).Mul(a, vPrec)
	den := new(big.Int).Set(b)
	if den.Sign() < 0 {
		num.Neg(num)
		den.Neg(den)
	}
	var got Dec
	mode := zz.Choice("op", 3)
	switch mode {
	case 0:
		panicked := vPanics(func() { got = x.Quo(y) })
		if !panicked {
			if zz.Known("dec-quo-double-rounding") && vKnownQuoRegion(new(big.Int).Mul(num, vPrec), den, 0) {
				zz.Reach("C18.dec.quo.known-region")
				return
			}
			zz.Assert("C18.dec.quo.half-even", vHalfEvenOK(num, den, got.Int))
		}
	case 1:
		panicked := vPanics(func() { got = x.QuoTruncate(y) })
		if !panicked {
			zz.Assert("C18.dec.quotrunc.truncates", vTruncOK(num, den, got.Int))
		}
	case 2:
		panicked := vPanics(func() { got = x.QuoRoundUp(y) })
		if !panicked {
			if zz.Known("dec-quoroundup-double-rounding") && vKnownQuoRegion(new(big.Int).Mul(num, vPrec), den, 1) {
				zz.Reach("C18.dec.quo.known-region")
				return
			}
			zz.Assert("C18.dec.quoroundup.ceil", vCeilOK(num, den, got.Int))
		}
	}
	zz.Assert("C18.dec.quo.operands-unchanged", x.Int.Cmp(a) == 0 && y.Int.Cmp(b) == 0)
	zz.Reach("C18.dec.quo")
}

// VerifC18_DecQuoHunt: both operands symbolic (non-linear): bug hunting for rounding errors of Quo / QuoRoundUp.
func VerifC18_DecQuoHunt() {
	lim := new(big.Int).Lsh(big.NewInt(1), 130)
	a := zz.Big("a", big.NewInt(1), lim)
	b := zz.Big("b", big.NewInt(1), lim)
	x, y := Dec{new(big.Int).Set(a)}, Dec{new(big.Int).Set(b)}
	num := new(big.Int).Mul(a, vPrec)
	mode := zz.Choice("op", 2)
	if mode == 0 {
		got := x.Quo(y)
		if zz.Known("dec-quo-double-rounding") && vKnownQuoRegion(new(big.Int).Mul(num, vPrec), b, 0) {
			zz.Reach("C18.dec.quohunt.known-region")
			return
		}
		zz.Hunt("C18.dec.quohunt.half-even", vHalfEvenOK(num, b, got.Int))
	} else {
		got := x.QuoRoundUp(y)
		if zz.Known("dec-quoroundup-double-rounding") && vKnownQuoRegion(new(big.Int).Mul(num, vPrec), b, 1) {
			zz.Reach("C18.dec.quohunt.known-region")
			return
		}
		zz.Hunt("C18.dec.quohunt.ceil", vCeilOK(num, b, got.Int))
	}
	zz.Reach("C18.dec.quohunt")
}

// VerifC18_DecToInt: RoundInt/RoundInt64/TruncateInt/TruncateInt64/Ceil/IsInteger/TruncateDec/QuoInt follow the same rules and range checks.
func VerifC18_DecToInt() {
	a := zz.Big("a", vDecMin, vDecBound)
	x := Dec{new(big.Int).Set(a)}
	fits64 := func(v *big.Int) bool { return v.Cmp(big.NewInt(-1<<63)) >= 0 && v.Cmp(big.NewInt(1<<63-1)) <= 0 }
	switch zz.Choice("op", 7) {
	case 0:
		var r Int
		p := vPanics(func() { r = x.RoundInt() })
		exact := chopPrecisionAndRoundNonMutative(a)
		zz.Assert("C18.dec.roundint.panic-iff-out-of-range", p == !vInRange(exact))
		if !p {
			zz.Assert("C18.dec.roundint.half-even", vHalfEvenOK(a, vPrec, r.BigInt()))
		}
	case 1:
		var r int64
		p := vPanics(func() { r = x.RoundInt64() })
		exact := chopPrecisionAndRoundNonMutative(a)
		zz.Assert("C18.dec.roundint64.panic-iff-unfit", p == !fits64(exact))
		if !p {
			zz.Assert("C18.dec.roundint64.half-even", vHalfEvenOK(a, vPrec, big.NewInt(r)))
		}
	case 2:
		var r Int
		p := vPanics(func() { r = x.TruncateInt() })
		exact := chopPrecisionAndTruncateNonMutative(a)
		zz.Assert("C18.dec.truncint.panic-iff-out-of-range", p == !vInRange(exact))
		if !p {
			zz.Assert("C18.dec.truncint.truncates", vTruncOK(a, vPrec, r.BigInt()))
		}
	case 3:
		var r int64
		p := vPanics(func() { r = x.TruncateInt64() })
		exact := chopPrecisionAndTruncateNonMutative(a)
		zz.Assert("C18.dec.truncint64.panic-iff-unfit", p == !fits64(exact))
		if !p {
			zz.Assert("C18.dec.truncint64.truncates", vTruncOK(a, vPrec, big.NewInt(r)))
		}
	case 4:
		c := x.Ceil()
		// c is an integer-valued Dec, c >= x > c-1
		zz.Assert("C18.dec.ceil", new(big.Int).Rem(c.Int, vPrec).Sign() == 0 && c.Int.Cmp(a) >= 0 && new(big.Int).Sub(c.Int, vPrec).Cmp(a) < 0)
	case 5:
		zz.Assert("C18.dec.isinteger", x.IsInteger() == (new(big.Int).Rem(a, vPrec).Sign() == 0))
		t := x.TruncateDec()
		zz.Assert("C18.dec.truncdec", new(big.Int).Rem(t.Int, vPrec).Sign() == 0 && vTruncOK(a, vPrec, new(big.Int).Quo(t.Int, vPrec)))
	case 6:
		b := vBoundary("i")
		if b.Sign() == 0 {
			zz.Assert("C18.dec.quoint.zero-panics", vPanics(func() { x.QuoInt(NewIntFromBigInt(b)) }))
		} else {
			q := x.QuoInt(NewIntFromBigInt(b))
			zz.Assert("C18.dec.quoint.truncates", vTruncDivOK(a, b, q.Int))
		}
	}
	zz.Assert("C18.dec.toint.operand-unchanged", x.Int.Cmp(a) == 0)
	zz.Reach("C18.dec.toint")
}

// VerifC18_Power: consensus power = floor(stake / 10^6) and its inverse.
func VerifC18_Power() {
	a := zz.Big("stake", big.NewInt(0), vMaxInt)
	var pr int64
	pp := vPanics(func() { pr = TokensToConsensusPower(NewIntFromBigInt(a)) })
	million := big.NewInt(1000000)
	// fl = floor(a / 10^6) stated declaratively (a >= 0)
	zz.Assert("C18.power.panic-iff-unrepresentable", pp == (a.Cmp(new(big.Int).Mul(new(big.Int).Lsh(big.NewInt(1), 63), million)) >= 0))
	if !pp {
		lo := new(big.Int).Mul(big.NewInt(pr), million)
		zz.Assert("C18.power.floor", pr >= 0 && lo.Cmp(a) <= 0 && new(big.Int).Add(lo, million).Cmp(a) > 0)
	}
	p := zz.Int64("p", 0, 1<<53)
	tk := TokensFromConsensusPower(p)
	zz.Assert("C18.power.inverse", tk.BigInt().Cmp(new(big.Int).Mul(big.NewInt(p), million)) == 0 && TokensToConsensusPower(tk) == p)
	zz.Reach("C18.power")
}

// VerifC18_IntRaw: the int64-operand variants (AddRaw, SubRaw, MulRaw, QuoRaw, ModRaw) equal exact integer arithmetic for
// every int64 (MinInt64 included) and panic iff the exact result is out of range / the divisor is zero.
func VerifC18_IntRaw() {
	a := zz.Big("a", vMinInt, vMaxInt)
	a0 := new(big.Int).Set(a)
	x := NewIntFromBigInt(a)
	op := zz.Choice("op", 5)
	var r int64
	if op == 2 {
		// product with a symbolic Int: the int64 operand comes from a boundary set (linear for the solver)
		r = []int64{0, 1, -1, 2, -3, 1000000, -1 << 63, 1<<63 - 1, -1<<63 + 1, 1 << 32}[zz.Choice("r", 10)]
	} else {
		r = zz.Int64("r", -1<<63, 1<<63-1)
	}
	rb := big.NewInt(r)
	var got Int
	var panicked bool
	switch op {
	case 0:
		exact := new(big.Int).Add(a0, rb)
		panicked = vPanics(func() { got = x.AddRaw(r) })
		zz.Assert("C18.int.raw.add.panic-iff-overflow", panicked == !vInRange(exact))
		if !panicked {
			zz.Assert("C18.int.raw.add.exact", got.BigInt().Cmp(exact) == 0)
		}
	case 1:
		exact := new(big.Int).Sub(a0, rb)
		panicked = vPanics(func() { got = x.SubRaw(r) })
		zz.Assert("C18.int.raw.sub.panic-iff-overflow", panicked == !vInRange(exact))
		if !panicked {
			zz.Assert("C18.int.raw.sub.exact", got.BigInt().Cmp(exact) == 0)
		}
	case 2:
		exact := new(big.Int).Mul(a0, rb)
		panicked = vPanics(func() { got = x.MulRaw(r) })
		zz.Assert("C18.int.raw.mul.panic-iff-overflow", panicked == !vInRange(exact))
		if !panicked {
			zz.Assert("C18.int.raw.mul.exact", got.BigInt().Cmp(exact) == 0)
		}
	case 3:
		panicked = vPanics(func() { got = x.QuoRaw(r) })
		zz.Assert("C18.int.raw.quo.panic-iff-zero", panicked == (r == 0))
		if !panicked {
			zz.Assert("C18.int.raw.quo.truncates", vTruncDivOK(a0, rb, got.BigInt()))
		}
	case 4:
		panicked = vPanics(func() { got = x.ModRaw(r) })
		zz.Assert("C18.int.raw.mod.panic-iff-zero", panicked == (r == 0))
		if !panicked {
			m := got.BigInt()
			zz.Assert("C18.int.raw.mod.range", m.Sign() >= 0 && m.Cmp(new(big.Int).Abs(rb)) < 0)
			zz.Assert("C18.int.raw.mod.congruent", new(big.Int).Rem(new(big.Int).Sub(a0, m), rb).Sign() == 0)
		}
	}
	zz.Assert("C18.int.raw.operand-unchanged", x.BigInt().Cmp(a0) == 0)
	zz.Reach("C18.int.raw")
}
