package types

import (
	"math/big"

	zz "github.com/pokt-network/posmint/zzverif"
)

// Text encodings of Int / Uint / Dec (the amino and JSON forms of every amount on the wire and in state).
// The decimal text of a symbolic integer is modelled digit by digit (zz.ExactBigText): sign, digit count and
// every digit are exact, so length checks, sign handling and range checks in the decoders are decided by the solver.

var vTextBound = new(big.Int).Lsh(big.NewInt(1), 258) // values up to 78 decimal digits, beyond the 2^255 range on both sides

// VerifC20_IntText: every Int survives amino-text and JSON encoding unchanged; the decoder accepts the text of an
// integer iff it is in the Int range.
func VerifC20_IntText() {
	zz.ExactBigText(true)
	a := zz.Big("a", new(big.Int).Neg(vTextBound), vTextBound)
	a0 := new(big.Int).Set(a)
	in := vInRange(a)
	x := Int{a}
	switch zz.Choice("codec", 2) {
	case 0:
		text, err := x.MarshalAmino()
		zz.Assert("C20.int.amino.marshal-ok", err == nil)
		var y Int
		uerr := y.UnmarshalAmino(text)
		zz.Assert("C20.int.amino.decodes-iff-in-range", (uerr == nil) == in)
		if uerr == nil {
			zz.Assert("C20.int.amino.roundtrip", y.i.Cmp(a0) == 0)
		}
	case 1:
		bz, err := x.MarshalJSON()
		zz.Assert("C20.int.json.marshal-ok", err == nil)
		var y Int
		uerr := y.UnmarshalJSON(bz)
		zz.Assert("C20.int.json.decodes-iff-in-range", (uerr == nil) == in)
		if uerr == nil {
			zz.Assert("C20.int.json.roundtrip", y.i.Cmp(a0) == 0)
		}
	}
	zz.Assert("C20.int.text.operand-unchanged", a.Cmp(a0) == 0)
	zz.Reach("C20.int.text.end")
}

// VerifC20_UintText: every Uint (0 .. 2^256-1) survives amino-text and JSON encoding unchanged.
func VerifC20_UintText() {
	zz.ExactBigText(true)
	a := zz.Big("a", big.NewInt(0), vMaxUint)
	a0 := new(big.Int).Set(a)
	x := Uint{a}
	switch zz.Choice("codec", 2) {
	case 0:
		text, err := x.MarshalAmino()
		zz.Assert("C20.uint.amino.marshal-ok", err == nil)
		var y Uint
		uerr := y.UnmarshalAmino(text)
		zz.Assert("C20.uint.amino.decodes", uerr == nil)
		if uerr == nil {
			zz.Assert("C20.uint.amino.roundtrip", y.i.Cmp(a0) == 0)
		}
	case 1:
		bz, err := x.MarshalJSON()
		zz.Assert("C20.uint.json.marshal-ok", err == nil)
		var y Uint
		uerr := y.UnmarshalJSON(bz)
		zz.Assert("C20.uint.json.decodes", uerr == nil)
		if uerr == nil {
			zz.Assert("C20.uint.json.roundtrip", y.i.Cmp(a0) == 0)
		}
	}
	zz.Reach("C20.uint.text.end")
}

// VerifC20_DecText: every Dec in range survives amino-text and JSON (fixed-point string) encoding unchanged.
func VerifC20_DecText() {
	zz.ExactBigText(true)
	lim := new(big.Int).Lsh(big.NewInt(1), 255+DecimalPrecisionBits)
	lim.Sub(lim, big.NewInt(1))
	a := zz.Big("a", new(big.Int).Neg(lim), lim)
	a0 := new(big.Int).Set(a)
	x := Dec{a}
	switch zz.Choice("codec", 2) {
	case 0:
		text, err := x.MarshalAmino()
		zz.Assert("C20.dec.amino.marshal-ok", err == nil)
		var y Dec
		uerr := y.UnmarshalAmino(text)
		zz.Assert("C20.dec.amino.decodes", uerr == nil)
		if uerr == nil {
			zz.Assert("C20.dec.amino.roundtrip", y.Int.Cmp(a0) == 0)
		}
	case 1:
		bz, err := x.MarshalJSON()
		zz.Assert("C20.dec.json.marshal-ok", err == nil)
		var y Dec
		uerr := y.UnmarshalJSON(bz)
		zz.Assert("C20.dec.json.decodes", uerr == nil)
		if uerr == nil {
			zz.Assert("C20.dec.json.roundtrip", y.Int.Cmp(a0) == 0)
		}
	}
	zz.Assert("C20.dec.text.operand-unchanged", a.Cmp(a0) == 0)
	zz.Reach("C20.dec.text.end")
}

// VerifC20_UintDecoder: the Uint text decoders accept the decimal text of an integer iff it is a Uint (0 .. 2^256-1).
func VerifC20_UintDecoder() {
	zz.ExactBigText(true)
	a := zz.Big("a", new(big.Int).Neg(vTextBound), vTextBound)
	a0 := new(big.Int).Set(a)
	text, err := marshalAmino(a)
	zz.Assert("C20.uint.decoder.text", err == nil)
	isUint := a.Sign() >= 0 && a.Cmp(vMaxUint) <= 0
	var y Uint
	var uerr error
	if zz.Choice("codec", 2) == 0 {
		uerr = y.UnmarshalAmino(text)
	} else {
		bz, _ := marshalJSON(a)
		uerr = y.UnmarshalJSON(bz)
	}
	zz.Assert("C20.uint.decoder.accepts-iff-uint", (uerr == nil) == isUint)
	if uerr == nil && isUint {
		zz.Assert("C20.uint.decoder.value", y.i.Cmp(a0) == 0)
	}
	zz.Reach("C20.uint.decoder.end")
}

// VerifC20_DecFromStr: NewDecFromStr over arbitrary short byte strings never panics, and whatever it accepts
// re-encodes (String) to a text it reads back as the same value; canonical fixed-point text is read exactly.
func VerifC20_DecFromStr() {
	zz.ExactBigText(true)
	n := zz.Choice("len", 5)
	bs := zz.Bytes("s", n)
	s := string(bs)
	var d Dec
	var err Error
	p := vPanics(func() { d, err = NewDecFromStr(s) })
	zz.Assert("C20.dec.fromstr.never-panics", !p)
	if p || err != nil {
		zz.Reach("C20.dec.fromstr.rejected")
		return
	}
	zz.Assert("C20.dec.fromstr.accepted-in-range", d.Int != nil)
	back, err2 := NewDecFromStr(d.String())
	zz.Assert("C20.dec.fromstr.reencodes-consistently", err2 == nil && back.Int.Cmp(d.Int) == 0)
	// canonical "D.D" / "DD" / "-D" forms are read exactly
	isD := func(c byte) bool { return c >= '0' && c <= '9' }
	if n == 3 && isD(bs[0]) && bs[1] == '.' && isD(bs[2]) {
		want := new(big.Int).Mul(big.NewInt(int64(bs[0]-'0')*10+int64(bs[2]-'0')), new(big.Int).Exp(big.NewInt(10), big.NewInt(Precision-1), nil))
		zz.Assert("C20.dec.fromstr.value", d.Int.Cmp(want) == 0)
	}
	if n == 2 && bs[0] == '-' && isD(bs[1]) {
		want := new(big.Int).Mul(big.NewInt(-int64(bs[1]-'0')), new(big.Int).Exp(big.NewInt(10), big.NewInt(Precision), nil))
		zz.Assert("C20.dec.fromstr.value", d.Int.Cmp(want) == 0)
	}
	zz.Reach("C20.dec.fromstr.accepted")
}

// vIntHostileText: the Int / Uint / Dec text decoders (what the amino and JSON decoders call for every integer field of
// a transaction) return an error or a value for every text of up to 2 arbitrary bytes - they never panic, whatever the
// bytes (empty text, lone sign, non-digits).
func vIntHostileText(p string) {
	zz.ExactBigText(true)
	n := zz.Choice("len", 3)
	bs := zz.Bytes("text", n)
	// (forms whose parsing the engine does not model: prefixed/octal literals and digit separators)
	if n == 2 {
		zz.Assume(bs[0] != '0' && bs[0] != '_' && bs[1] != '_')
		zz.Assume(!((bs[0] == '-' || bs[0] == '+') && bs[1] == '0'))
	}
	if n == 1 {
		zz.Assume(bs[0] != '_')
	}
	text := string(bs)
	which := zz.Choice("type", 3)
	panicked := vPanics(func() {
		switch which {
		case 0:
			var x Int
			_ = x.UnmarshalAmino(text)
		case 1:
			var x Uint
			_ = x.UnmarshalAmino(text)
		case 2:
			var x Dec
			_ = x.UnmarshalAmino(text)
		}
	})
	zz.Assert(p+".never-panics", !panicked)
	zz.Reach(p + ".end")
}

func VerifC20_IntHostileText()        { vIntHostileText("C20.int.hostile-text") }
func VerifC11_IntFieldDecodeNoPanic() { vIntHostileText("C11.decode.integer-field") }

// VerifC20_AddressJSON: every 20-byte address - the all-zero one, ones with leading/trailing zero bytes, arbitrary ones -
// survives its JSON (hex string) form unchanged; only the nil / zero-length address encodes as the empty string.
func VerifC20_AddressJSON() {
	var a Address
	switch zz.Choice("address", 4) {
	case 0:
		a = Address(make([]byte, AddrLen)) // all zero
	case 1:
		a = Address(append(make([]byte, AddrLen-1), 1))
	case 2:
		a = Address(zz.Bytes("addr", AddrLen))
	case 3:
		a = nil
	}
	bz, err := a.MarshalJSON()
	zz.Assert("C20.address-json.marshal-ok", err == nil)
	var b Address
	err = b.UnmarshalJSON(bz)
	if a == nil {
		zz.Reach("C20.address-json.nil")
		return
	}
	zz.Assert("C20.address-json.roundtrip", err == nil && len(b) == AddrLen && zz.BytesEqual(a, b))
	zz.Assert("C20.address-json.not-confused-with-absent", !a.Empty() && a.String() != "")
	zz.Reach("C20.address-json.end")
}
