package keys

import (
	"bytes"
	"encoding/hex"

	"github.com/pokt-network/posmint/crypto"
	sdk "github.com/pokt-network/posmint/types"
	zz "github.com/pokt-network/posmint/zzverif"
)

var vPrivHex = []string{
	"0100000000000000000000000000000000000000000000000000000000000000cecc1507dc1ddd7295951c290888f095adb9044d1b73d696e6df065d683bd4fc",
	"02000000000000000000000000000000000000000000000000000000000000006b79c57e6a095239282c04818e96112f3f03a4001ba97a564c23852a3f1ea5fc",
}

func vPriv(i int) (raw [64]byte, addr sdk.Address) {
	b, _ := hex.DecodeString(vPrivHex[i])
	copy(raw[:], b)
	addr = sdk.Address(crypto.Ed25519PrivateKey(raw).PubKey().Address())
	return
}

// empty, ascii, the same with a trailing blank, and two long passphrases (70 bytes) that differ in their last byte only
var vPass = []string{"", "p@ss-one", "p@ss-one ",
	"0123456789012345678901234567890123456789012345678901234567890123456789",
	"012345678901234567890123456789012345678901234567890123456789012345678X"}

type vEntry struct {
	present bool
	pass    string
}

func vListed(kb Keybase, addr sdk.Address) bool {
	kps, err := kb.List()
	if err != nil {
		return false
	}
	for _, kp := range kps {
		if bytes.Equal(kp.GetAddress(), addr) {
			return true
		}
	}
	return false
}

// VerifC19_Keybase: programs of keybase operations over two keys and three passphrases (empty, ascii, unicode): an
// operation given the wrong passphrase fails and changes nothing; with the right one it does what it says; a stored key
// signs (and the signature verifies), can be re-encrypted, exported and re-imported elsewhere with the same address.
func VerifC19_Keybase() {
	kb := NewInMemory()
	var model [2]vEntry
	raws := [2][64]byte{}
	addrs := [2]sdk.Address{}
	for i := 0; i < 2; i++ {
		raws[i], addrs[i] = vPriv(i)
	}
	// setup: key 0 is imported under one of the passphrases, optionally made the coinbase (cached in the keybase object)
	p0 := []string{vPass[1], vPass[3], vPass[0]}[zz.Choice("pass0", 3)]
	if _, err := kb.ImportPrivateKeyObject(raws[0], p0); err != nil {
		panic(err)
	}
	model[0] = vEntry{true, p0}
	if zz.Choice("coinbase", 2) == 1 {
		if err := kb.SetCoinbase(addrs[0]); err != nil {
			panic(err)
		}
	}
	steps := 2
	for s := 0; s < steps; s++ {
		k := 0
		nops := 5
		if s == 0 {
			k = zz.Choice("key", 2)
			nops = 6
		}
		// the passphrase offered: the stored one of key 0 (right for key 0), a near miss of it (another ascii word / the
		// long passphrase with a different last byte), or the empty one
		near := map[string]string{vPass[0]: vPass[1], vPass[1]: vPass[2], vPass[2]: vPass[1], vPass[3]: vPass[4], vPass[4]: vPass[3]}
		cur := model[0].pass
		if !model[0].present {
			cur = p0
		}
		p := []string{cur, near[cur], vPass[0]}[zz.Choice("pass", 3)]
		switch zz.Choice("op", nops) {
		case 0: // import
			_, err := kb.ImportPrivateKeyObject(raws[k], p)
			zz.Assert("C19.keybase.import-refuses-overwrite", (err != nil) == model[k].present)
			if err == nil {
				model[k] = vEntry{true, p}
			}
		case 1: // update passphrase
			np := []string{vPass[2], vPass[4]}[zz.Choice("newpass", 2)]
			err := kb.Update(addrs[k], p, np)
			zz.Assert("C19.keybase.update-needs-right-passphrase", (err == nil) == (model[k].present && model[k].pass == p))
			if err == nil {
				model[k].pass = np
			}
		case 2: // delete
			err := kb.Delete(addrs[k], p)
			zz.Assert("C19.keybase.delete-needs-right-passphrase", (err == nil) == (model[k].present && model[k].pass == p))
			if err == nil {
				model[k] = vEntry{}
			}
		case 3: // sign
			// any bytes, including ones that happen to be JSON in a non-canonical form: the signature is over exactly them
			msg := [][]byte{[]byte("message to sign"), []byte(`{"b":1,"a":2}`), []byte(` 12`)}[zz.Choice("message", 3)]
			sig, pub, err := kb.Sign(addrs[k], p, msg)
			zz.Assert("C19.keybase.sign-needs-right-passphrase", (err == nil) == (model[k].present && model[k].pass == p))
			if err == nil {
				zz.Assert("C19.keybase.signature-verifies-under-that-key", pub.VerifyBytes(msg, sig) && bytes.Equal(pub.Address(), addrs[k]))
				zz.Assert("C19.keybase.signature-is-for-that-message-only", !pub.VerifyBytes(append([]byte("x"), msg...), sig) && !pub.VerifyBytes([]byte(`{"a":2,"b":1}`), sig) && !pub.VerifyBytes([]byte(`12`), sig))
			}
		case 4: // export (re-encrypted under another passphrase) and import into a second keybase
			// the export passphrase may be the same as the (right or wrong) decryption passphrase; the hint may be empty
			ep := vPass[zz.Choice("exportpass", 2)]
			if zz.Choice("export_same_passphrase", 2) == 1 {
				ep = p
			}
			hint := []string{"hint", ""}[zz.Choice("hint", 2)]
			armor, err := kb.ExportPrivKeyEncryptedArmor(addrs[k], p, ep, hint)
			zz.Assert("C19.keybase.export-needs-right-passphrase", (err == nil) == (model[k].present && model[k].pass == p))
			if err == nil {
				other := NewInMemory()
				ip := []string{ep, near[ep]}[zz.Choice("importpass", 2)]
				kp, err2 := other.ImportPrivKey(armor, ip, "fresh")
				zz.Assert("C19.keybase.import-needs-export-passphrase", (err2 == nil) == (ip == ep))
				if err2 == nil {
					zz.Assert("C19.keybase.export-import-preserves-key-and-address", bytes.Equal(kp.GetAddress(), addrs[k]) && vListed(other, addrs[k]))
					_, _, err3 := other.Sign(addrs[k], "fresh", []byte("x"))
					zz.Assert("C19.keybase.imported-key-usable", err3 == nil)
				}
			}
		case 5: // make it the coinbase (cached in the keybase object)
			err := kb.SetCoinbase(addrs[k])
			zz.Assert("C19.keybase.setcoinbase-needs-existing-key", (err == nil) == model[k].present)
		}
		// after every operation the listing is exactly the model
		for i := 0; i < 2; i++ {
			zz.Assert("C19.keybase.list-matches-model", vListed(kb, addrs[i]) == model[i].present)
			_, err := kb.Get(addrs[i])
			zz.Assert("C19.keybase.get-matches-model", (err == nil) == model[i].present)
		}
	}
	zz.Reach("C19.keybase")
}

// VerifC19_LazyKeybase: the on-disk keybase (it reopens its database for every operation; the database is an
// in-memory one under the engine, a real LevelDB directory natively): a key exported from one keybase and imported
// here is stored under the passphrase chosen at import - that passphrase signs, the export passphrase (when different)
// does not - and has the same address; deleting needs the right passphrase.
func VerifC19_LazyKeybase() {
	src := NewInMemory()
	raw, addr := vPriv(0)
	if _, err := src.ImportPrivateKeyObject(raw, "origin"); err != nil {
		panic(err)
	}
	ep := []string{"export-pass", "pässwörd-stored"}[zz.Choice("export_pass", 2)]
	armor, err := src.ExportPrivKeyEncryptedArmor(addr, "origin", ep, "hint")
	if err != nil {
		panic(err)
	}
	kb := New("keys", zz.TempDir("lazykb"))
	dp := []string{ep, "wrong"}[zz.Choice("decrypt_with", 2)]
	kp, err := kb.ImportPrivKey(armor, dp, "pässwörd-stored")
	zz.Assert("C19.lazy.import-needs-export-passphrase", (err == nil) == (dp == ep))
	if err != nil {
		_, gerr := kb.Get(addr)
		zz.Assert("C19.lazy.failed-import-stores-nothing", gerr != nil)
		zz.Reach("C19.lazy.rejected")
		return
	}
	zz.Assert("C19.lazy.same-address", bytes.Equal(kp.GetAddress(), addr) && vListed(kb, addr))
	p := []string{"pässwörd-stored", "export-pass", ""}[zz.Choice("sign_with", 3)]
	sig, pub, serr := kb.Sign(addr, p, []byte("msg"))
	zz.Assert("C19.lazy.only-the-import-passphrase-opens-the-key", (serr == nil) == (p == "pässwörd-stored"))
	if serr == nil {
		zz.Assert("C19.lazy.signature-verifies", pub.VerifyBytes([]byte("msg"), sig))
	}
	derr := kb.Delete(addr, p)
	zz.Assert("C19.lazy.delete-needs-right-passphrase", (derr == nil) == (p == "pässwörd-stored"))
	_, gerr := kb.Get(addr)
	zz.Assert("C19.lazy.deleted-iff-delete-succeeded", (gerr != nil) == (derr == nil))
	zz.Reach("C19.lazy.end")
}
