package crypto

import (
	"encoding/hex"

	zz "github.com/pokt-network/posmint/zzverif"
)

var vPrivHex = []string{
	"0100000000000000000000000000000000000000000000000000000000000000cecc1507dc1ddd7295951c290888f095adb9044d1b73d696e6df065d683bd4fc",
	"02000000000000000000000000000000000000000000000000000000000000006b79c57e6a095239282c04818e96112f3f03a4001ba97a564c23852a3f1ea5fc",
	"0300000000000000000000000000000000000000000000000000000000000000dadbd184a2d526f1ebdd5c06fdad9359b228759b4d7f79d66689fa254aad8546",
}

func vKeyPair(i int) (Ed25519PrivateKey, Ed25519PublicKey) {
	raw, _ := hex.DecodeString(vPrivHex[i])
	var priv Ed25519PrivateKey
	copy(priv[:], raw)
	var pub Ed25519PublicKey
	copy(pub[:], raw[32:])
	return priv, pub
}

// vSig: signature number kind for position pos over message msg (or another message).
// kind: 0 = the right member over msg, 1..n-1 = another member over msg, n = right member over another message, n+1 = garbage, n+2 = nil
func vSig(privs []Ed25519PrivateKey, pos, kind int, msg, other []byte) []byte {
	n := len(privs)
	switch {
	case kind < n:
		s, _ := privs[(pos+kind)%n].Sign(msg)
		return s
	case kind == n:
		s, _ := privs[pos].Sign(other)
		return s
	case kind == n+1:
		return []byte{0xde, 0xad}
	}
	return nil
}

// VerifC19_Multisig: an N-of-N multisignature key (N = 2..3) verifies exactly when the signature list has one entry per
// key and every entry is that key's signature over the message, in its own position.
func VerifC19_Multisig() {
	n := 2 + zz.Choice("members", 2)
	var privs []Ed25519PrivateKey
	var keys []PublicKey
	for i := 0; i < n; i++ {
		p, k := vKeyPair(i)
		privs = append(privs, p)
		keys = append(keys, k)
	}
	pms := PublicKeyMultiSignature{PublicKeys: keys}
	msg := append([]byte("message-"), zz.Byte("m"))
	other := append([]byte("message-"), zz.Byte("o"))
	nsigs := zz.Choice("nsigs", n+2) // 0 .. n+1 signatures
	allRight := nsigs == n
	var sigs [][]byte
	for pos := 0; pos < nsigs; pos++ {
		kind := zz.Choice("kind", n+3)
		p := pos
		if p >= n {
			p = n - 1
		}
		sigs = append(sigs, vSig(privs, p, kind, msg, other))
		if kind != 0 {
			allRight = false
		}
	}
	ms := MultiSignature{Sigs: sigs}
	got := pms.VerifyBytes(msg, ms.Marshal())
	// a signature over `other` is also fine when other == msg
	if zz.BytesEqual(msg, other) {
		zz.Reach("C19.multisig.same-message")
		return
	}
	zz.Assert("C19.multisig.verifies-iff-every-member-signed-in-position", got == allRight)
	// the single-key wrappers delegate unchanged
	s0, _ := privs[0].Sign(msg)
	zz.Assert("C19.wrapper.verify-own-signature", keys[0].VerifyBytes(msg, s0))
	zz.Assert("C19.wrapper.rejects-other-key", !keys[1].VerifyBytes(msg, s0))
	zz.Assert("C19.wrapper.rejects-other-message", !keys[0].VerifyBytes(other, s0))
	zz.Reach("C19.multisig")
}

// VerifC19_Nested: a multisignature key whose first member is itself a 2-key multisignature: [multi(A,B), C].
// It verifies only when the nested component verifies AND C signed in its own position.
func VerifC19_Nested() {
	pa, ka := vKeyPair(0)
	pb, kb := vKeyPair(1)
	pc, kc := vKeyPair(2)
	inner := PublicKeyMultiSignature{PublicKeys: []PublicKey{ka, kb}}
	outer := PublicKeyMultiSignature{PublicKeys: []PublicKey{inner, kc}}
	msg := []byte("nested-message")
	other := []byte("another-message")
	sign := func(p Ed25519PrivateKey, m []byte) []byte { s, _ := p.Sign(m); return s }
	// inner component: kinds per member
	ia, ib := zz.Choice("inner_a", 3), zz.Choice("inner_b", 3)
	pick := func(kind int, right, wrong Ed25519PrivateKey) []byte {
		switch kind {
		case 0:
			return sign(right, msg)
		case 1:
			return sign(wrong, msg)
		}
		return sign(right, other)
	}
	innerSig := MultiSignature{Sigs: [][]byte{pick(ia, pa, pb), pick(ib, pb, pa)}}.Marshal()
	var cSig []byte
	ck := zz.Choice("outer_c", 5)
	switch ck {
	case 0:
		cSig = sign(pc, msg)
	case 1:
		cSig = sign(pa, msg) // a duplicate of A's signature
	case 2:
		cSig = sign(pc, other)
	case 3:
		cSig = []byte{1, 2, 3}
	case 4:
		cSig = innerSig // the nested component repeated
	}
	outerSig := MultiSignature{Sigs: [][]byte{innerSig, cSig}}.Marshal()
	got := outer.VerifyBytes(msg, outerSig)
	zz.Assert("C19.nested.verifies-iff-every-component-signed-in-position", got == (ia == 0 && ib == 0 && ck == 0))
	zz.Reach("C19.nested")
}

// VerifC20_PubKeyJSONHostile: the JSON decoders of both public-key types return an error (or a key) for every input
// of up to 3 arbitrary bytes - they never panic.
func VerifC20_PubKeyJSONHostile() {
	n := zz.Choice("len", 4)
	data := zz.Bytes("data", n)
	panicked := false
	func() {
		defer func() {
			if r := recover(); r != nil {
				panicked = true
			}
		}()
		if zz.Choice("type", 2) == 0 {
			var pk Ed25519PublicKey
			_ = pk.UnmarshalJSON(data)
		} else {
			var pk Secp256k1PublicKey
			_ = pk.UnmarshalJSON(data)
		}
	}()
	zz.Assert("C20.pubkey-json.never-panics", !panicked)
	zz.Reach("C20.pubkey-json.end")
}
