package cachekv

import (
	"bytes"

	"github.com/pokt-network/posmint/store/types"
	zz "github.com/pokt-network/posmint/zzverif"
	"github.com/pokt-network/posmint/zzverif/vstore"
)

// vHooked is a parent store that lets the other goroutine of the harness run whenever the cache wrapper reaches
// into its parent (the only place where a cache operation can be slow, hence where an implementation is tempted to
// drop its lock).
type vHooked struct {
	*vstore.Mem
	hook func()
}

func (h *vHooked) Get(k []byte) []byte { h.hook(); return h.Mem.Get(k) }
func (h *vHooked) Has(k []byte) bool   { h.hook(); return h.Mem.Has(k) }
func (h *vHooked) Set(k, v []byte)     { h.hook(); h.Mem.Set(k, v) }
func (h *vHooked) Delete(k []byte)     { h.hook(); h.Mem.Delete(k) }

type vConcOp struct {
	kind int // 0 Set 1 Delete 2 Get 3 Has
	k, v []byte
	got  []byte
	has  bool
}

func vNewConcOp(tag string, val byte) *vConcOp {
	return &vConcOp{kind: zz.Choice(tag+".op", 4), k: vKey(tag + ".k"), v: []byte{val}}
}

func (o *vConcOp) run(w types.KVStore) {
	switch o.kind {
	case 0:
		w.Set(o.k, o.v)
	case 1:
		w.Delete(o.k)
	case 2:
		o.got = w.Get(o.k)
	case 3:
		o.has = w.Has(o.k)
	}
}

// serial applies the operation to the model and says whether what the real operation returned is what the model returns.
func (o *vConcOp) serial(m *vstore.Mem) bool {
	switch o.kind {
	case 0:
		m.Set(o.k, o.v)
	case 1:
		m.Delete(o.k)
	case 2:
		return bytes.Equal(m.Get(o.k), o.got) && (m.Get(o.k) == nil) == (o.got == nil)
	case 3:
		return m.Has(o.k) == o.has
	}
	return true
}

// VerifC15_Concurrent: two goroutines each perform one Get/Has/Set/Delete (symbolic keys) on one cache wrapper; the
// second goroutine is let run exactly when the first one's operation reaches into the parent store.  Each operation
// must take effect atomically: the values returned and the final content (wrapper view, then parent after Write)
// are those of one of the two serial orders.
func VerifC15_Concurrent() {
	base := vParent()
	parent := &vHooked{Mem: base}
	hooked := false
	parent.hook = func() {
		if !hooked {
			hooked = true
			zz.Yield()
		}
	}
	w := NewStore(parent)
	a, b := vNewConcOp("a", 0x11), vNewConcOp("b", 0x22)
	before := base.Clone()
	done := make(chan struct{})
	go func() {
		b.run(w)
		close(done)
	}()
	a.run(w)
	<-done
	hooked = true // observations below do not yield
	// final wrapper view of both keys, then parent after Write
	fa, fb := w.Get(a.k), w.Get(b.k)
	w.Write()
	ok := false
	for order := 0; order < 2; order++ {
		m := before.Clone()
		var r1, r2 bool
		if order == 0 {
			r1, r2 = a.serial(m), b.serial(m)
		} else {
			r1, r2 = b.serial(m), a.serial(m)
		}
		if r1 && r2 && m.GetS(a.k, fa) && m.GetS(b.k, fb) && vstore.SameContentS(m, base) {
			ok = true
		}
	}
	zz.Assert("C15.concurrent.linearizable", ok)
	zz.Reach("C15.concurrent.end")
}

// VerifC15_Race: two goroutines each perform one Get/Has/Set/Delete/Write on one cache wrapper with no other
// synchronisation than the wrapper's own; every pair of conflicting memory accesses (cache map, cached values, sorted
// list, parent content) must be ordered by happens-before, whatever the operations and keys.
func VerifC15_Race() {
	zz.RaceDetect("C15.concurrent.no-data-race")
	base := vParent()
	w := NewStore(base)
	a, b := vNewConcOp("a", 0x11), vNewConcOp("b", 0x22)
	wa, wb := zz.Choice("a.write", 2) == 1, zz.Choice("b.write", 2) == 1
	done := make(chan struct{})
	go func() {
		b.run(w)
		if wb {
			w.Write()
		}
		close(done)
	}()
	a.run(w)
	if wa {
		w.Write()
	}
	<-done
	_ = w.Get(a.k)
	zz.RaceDetect("")
	zz.Reach("C15.race.end")
}
