package cachekv

import (
	"bytes"

	"github.com/pokt-network/posmint/store/tracekv"
	"github.com/pokt-network/posmint/store/types"
	zz "github.com/pokt-network/posmint/zzverif"
	"github.com/pokt-network/posmint/zzverif/vstore"
)

func vKey(name string) []byte {
	return zz.Bytes(name, 1)
}

func vBound(name string) []byte {
	switch zz.Choice(name+".kind", 2) {
	case 0:
		return nil
	}
	return vKey(name)
}

func vParent() *vstore.Mem { return vParentUpTo(2) }

// vParentUpTo: a parent with 0..1 entries (quick) or 0..max entries (thorough)
func vParentUpTo(max int) *vstore.Mem {
	m := vstore.New()
	n := zz.Choice("nparent", 2)
	if zz.Thorough() {
		n = zz.Choice("nparent", max+1)
	}
	for i := 0; i < n; i++ {
		k := vKey("pk")
		for _, e := range m.E {
			zz.Assume(!bytes.Equal(e.K, k))
		}
		m.E = append(m.E, vstore.KV{K: k, V: []byte{byte(0xA0 + i)}})
	}
	return m
}


// vStep applies one symbolic cache operation to the wrapper and mirrors it on the overlay model.
// It also checks every value the operation returns against the model.
func vStep(tag string, w types.KVStore, model *vstore.Mem, i int) {
	switch zz.Choice(tag+".op", 4) {
	case 0:
		k := vKey(tag + ".k")
		v := []byte{byte(0x10 + i)}
		w.Set(k, v)
		model.Set(k, v)
	case 1:
		k := vKey(tag + ".k")
		w.Delete(k)
		model.Delete(k)
	case 2:
		k := vKey(tag + ".k")
		got := w.Get(k)
		zz.Assert("C15.step.get", model.GetS(k, got))
		zz.Assert("C15.step.has", model.GetS(k, got) && w.Has(k) == (got != nil))
	case 3:
		s, e := vBound(tag+".s"), vBound(tag+".e")
		if zz.Choice(tag+".dir", 2) == 0 {
			zz.Assert("C15.step.iterate", model.IterationOfS(vstore.Drain(w.Iterator(s, e)), s, e, true))
		} else {
			zz.Assert("C15.step.reverse-iterate", model.IterationOfS(vstore.Drain(w.ReverseIterator(s, e)), s, e, false))
		}
	}
}

func vObserve(tag string, w types.KVStore, model *vstore.Mem) {
	if zz.Choice(tag+".okind", 2) == 0 {
		k := vKey(tag + ".ok")
		zz.Assert("C15.observe.get", model.GetS(k, w.Get(k)))
		return
	}
	s, e := vBound(tag+".os"), vBound(tag+".oe")
	if zz.Choice(tag+".odir", 2) == 0 {
		got := vstore.Drain(w.Iterator(s, e))
		zz.Assert("C15.observe.iterate", model.IterationOfS(got, s, e, true))
	} else {
		got := vstore.Drain(w.ReverseIterator(s, e))
		zz.Assert("C15.observe.reverse-iterate", model.IterationOfS(got, s, e, false))
	}
}

// VerifC15_Overlay: a program of cache operations on one wrapper; every read/iteration equals the overlay model,
// the parent is untouched until Write, equals the overlay view after Write, and the wrapper is clean afterwards.
func VerifC15_Overlay() {
	parent := vParent()
	before := parent.Clone()
	model := parent.Clone()
	w := NewStore(parent)
	steps := 2
	for i := 0; i < steps; i++ {
		vStep("s", w, model, i)
	}
	zz.Assert("C15.parent-unchanged-before-write", vstore.SameContentS(parent, before))
	switch zz.Choice("end", 3) {
	case 0:
		vObserve("o", w, model)
		zz.Assert("C15.parent-unchanged-by-reads", vstore.SameContentS(parent, before))
	case 1:
		w.Write()
		zz.Assert("C15.write.parent-equals-overlay", vstore.SameContentS(parent, model))
		zz.Assert("C15.write.wrapper-clean", len(w.cache) == 0 && len(w.unsortedCache) == 0 && w.sortedCache.Len() == 0)
		vObserve("o", w, model)
		// a second Write is a no-op
		w.Write()
		zz.Assert("C15.write.idempotent", vstore.SameContentS(parent, model))
	case 2:
		// discard: drop the wrapper, parent keeps its old content
		w = nil
		zz.Assert("C15.discard.no-effect", vstore.SameContentS(parent, before))
	}
	zz.Reach("C15.overlay")
}

// vWrite applies one symbolic Set or Delete.
func vWrite(tag string, w types.KVStore, model *vstore.Mem, i int) {
	k := vKey(tag + ".k")
	if zz.Choice(tag+".op", 2) == 0 {
		v := []byte{byte(0x10 + i)}
		w.Set(k, v)
		model.Set(k, v)
	} else {
		w.Delete(k)
		model.Delete(k)
	}
}

// VerifC15_Nested: depth-2 nesting: inner writes become visible in the outer wrapper only at inner.Write,
// and in the parent only at outer.Write; a discarded inner wrapper leaves no effect.
func VerifC15_Nested() {
	parent := vParent()
	before := parent.Clone()
	outerModel := parent.Clone()
	outer := NewStore(parent)
	vWrite("a", outer, outerModel, 0)
	var inner types.CacheKVStore
	if zz.Choice("nested_with_tracing", 2) == 1 {
		// as cachemulti nests its per-transaction cache when a tracer is set
		inner = outer.CacheWrapWithTrace(&vTraceRec{}, types.TraceContext{"h": 1}).(types.CacheKVStore)
	} else {
		inner = outer.CacheWrap().(types.CacheKVStore)
	}
	innerModel := outerModel.Clone()
	vWrite("b", inner, innerModel, 1)
	// inner sees its own view, outer does not see inner's pending writes
	k := vKey("probe")
	zz.Assert("C15.nested.inner-view", innerModel.GetS(k, inner.Get(k)))
	zz.Assert("C15.nested.outer-isolated", outerModel.GetS(k, outer.Get(k)))
	switch zz.Choice("end", 2) {
	case 0:
		inner.Write()
		zz.Assert("C15.nested.outer-sees-inner-after-write", innerModel.IterationOfS(vstore.Drain(outer.Iterator(nil, nil)), nil, nil, true))
		zz.Assert("C15.nested.parent-unchanged", vstore.SameContentS(parent, before))
		outer.Write()
		zz.Assert("C15.nested.parent-equals-inner-view", vstore.SameContentS(parent, innerModel))
	case 1:
		// discard inner, write outer
		outer.Write()
		zz.Assert("C15.nested.discard-inner", vstore.SameContentS(parent, outerModel))
	}
	zz.Reach("C15.nested")
}

// VerifC15_OpenIterator: writes performed while an iterator is open: an iterator created on the wrapper keeps showing
// the overlay as it was when it was created - later Set/Delete of keys in its range (also of keys already dirty) and
// the creation of further iterators do not change what it returns - and a new iterator shows the new overlay.
func VerifC15_OpenIterator() {
	parent := vParentUpTo(1) // thorough deepens this harness by a second write before the iterator, not by a larger parent
	model := parent.Clone()
	w := NewStore(parent)
	vWrite("a", w, model, 0)
	if zz.Thorough() {
		vWrite("b", w, model, 1)
	}
	s, e := vBound("s"), vBound("e")
	asc := zz.Choice("dir", 2) == 0
	snapshot := model.Clone()
	var it1 types.Iterator
	if asc {
		it1 = w.Iterator(s, e)
	} else {
		it1 = w.ReverseIterator(s, e)
	}
	// a write while it1 is open, then another iterator over everything (forces the dirty items to be re-sorted)
	vWrite("c", w, model, 2)
	it2 := w.Iterator(nil, nil)
	got2 := vstore.Drain(it2)
	got1 := vstore.Drain(it1)
	zz.Assert("C15.open-iterator.keeps-its-view", snapshot.IterationOfS(got1, s, e, asc))
	zz.Assert("C15.open-iterator.new-iterator-sees-new-overlay", model.IterationOfS(got2, nil, nil, true))
	zz.Reach("C15.open-iterator")
}

// VerifC15_EmptyValue: an empty (non-nil) value is a value: set through the wrapper - also for a key the wrapper has
// already read as absent, or that holds another value - it is visible to Get/Has/iteration at once and reaches the
// parent at Write, at nesting depth 1 and 2.
func VerifC15_EmptyValue() {
	parent := vParent()
	model := parent.Clone()
	var w types.CacheKVStore = NewStore(parent)
	if zz.Choice("depth", 2) == 1 {
		w = NewStore(w)
	}
	k := vKey("k")
	switch zz.Choice("before", 3) {
	case 1: // the wrapper has looked the key up before (cached "absent" or the parent's value)
		got := w.Get(k)
		zz.Assert("C15.empty.read-before", model.GetS(k, got))
	case 2:
		w.Set(k, []byte{7})
		model.Set(k, []byte{7})
	}
	w.Set(k, []byte{})
	model.Set(k, []byte{})
	got := w.Get(k)
	zz.Assert("C15.empty.get-sees-empty-value", got != nil && len(got) == 0 && w.Has(k))
	zz.Assert("C15.empty.iteration-sees-it", model.IterationOfS(vstore.Drain(w.Iterator(nil, nil)), nil, nil, true) && model.IterationOfS(vstore.Drain(w.ReverseIterator(nil, nil)), nil, nil, false))
	w.Write()
	if inner, ok := w.(*Store); ok {
		if outer, ok := inner.parent.(*Store); ok {
			outer.Write()
		}
	}
	zz.Assert("C15.empty.reaches-parent", vstore.SameContentS(parent, model) && parent.Has(k))
	zz.Reach("C15.empty.end")
}

type vTraceRec struct{ chunks [][]byte }

func (r *vTraceRec) Write(p []byte) (int, error) {
	r.chunks = append(r.chunks, append([]byte{}, p...))
	return len(p), nil
}

// lines: tracekv writes one JSON chunk and one newline chunk per traced operation
func (r *vTraceRec) lines() int { return len(r.chunks) / 2 }

// VerifC16_NestedTrace: tracing requested at every cache level (as cachemulti does for the block cache and, nested in
// it, the per-transaction cache): what the nested level sends to its parent - read-throughs and the writes/deletes it
// flushes - appears in the trace, one line per operation.
func VerifC16_NestedTrace() {
	base := vstore.New()
	base.Set([]byte("ka"), []byte("va"))
	rec := &vTraceRec{}
	tc := types.TraceContext{"blockHeight": 64}
	l1 := NewStore(tracekv.NewStore(base, rec, tc))
	l2 := l1.CacheWrapWithTrace(rec, tc).(types.CacheKVStore)
	k := [][]byte{[]byte("ka"), []byte("kb")}[zz.Choice("key", 2)]
	op := zz.Choice("op", 3)
	switch op {
	case 0:
		l2.Set(k, []byte("new"))
	case 1:
		l2.Delete(k)
	case 2:
		_ = l2.Get(k)
	}
	l2.Write()
	switch op {
	case 0, 1:
		// the flush of the nested level is one traced operation on the first level (which has not flushed to the base)
		zz.Assert("C16.nestedtrace.flushed-operation-is-traced", rec.lines() == 1 && len(rec.chunks) == 2)
	case 2:
		// the read-through of the nested level is traced, and so is the first level's own read-through below it
		zz.Assert("C16.nestedtrace.read-through-is-traced", rec.lines() == 2)
	}
	zz.Reach("C16.nestedtrace.end")
}
