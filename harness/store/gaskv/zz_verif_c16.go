package gaskv

import (
	"bytes"

	"github.com/pokt-network/posmint/store/types"
	zz "github.com/pokt-network/posmint/zzverif"
	"github.com/pokt-network/posmint/zzverif/vstore"
)

const vMaxU64 = ^uint64(0)

// vCharge is the reference meter: it replays the documented charges on a ghost (consumed, limit) pair.
// outcome: 0 = ok, 1 = ErrorOutOfGas, 2 = ErrorGasOverflow (raised at the first charge that crosses).
type vRef struct {
	consumed uint64
	limit    uint64
	infinite bool
	outcome  int
}

func (r *vRef) charge(amount uint64) {
	if r.outcome != 0 {
		return
	}
	if vMaxU64-r.consumed < amount {
		r.outcome = 2
		return
	}
	r.consumed += amount
	if !r.infinite && r.consumed > r.limit {
		r.outcome = 1
	}
}

// vRun runs f and classifies its panic.
func vRun(f func()) (outcome int) {
	defer func() {
		if r := recover(); r != nil {
			switch r.(type) {
			case types.ErrorOutOfGas:
				outcome = 1
			case types.ErrorGasOverflow:
				outcome = 2
			default:
				outcome = 3
			}
		}
	}()
	f()
	return 0
}

func vMeter(ref *vRef) types.GasMeter {
	pre := zz.Uint64("pre", 0, vMaxU64)
	if zz.Choice("meter", 2) == 0 {
		limit := zz.Uint64("limit", 0, vMaxU64)
		zz.Assume(pre <= limit)
		m := types.NewGasMeter(limit)
		m.ConsumeGas(pre, "pre")
		ref.consumed, ref.limit = pre, limit
		return m
	}
	m := types.NewInfiniteGasMeter()
	m.ConsumeGas(pre, "pre")
	ref.consumed, ref.infinite = pre, true
	return m
}

func vConfig() types.GasConfig {
	if zz.Choice("cfg", 2) == 0 {
		return types.KVGasConfig()
	}
	// arbitrary cost table (per-byte costs bounded so that cost*len cannot overflow for the value sizes used: len <= 3)
	return types.GasConfig{
		HasCost:          zz.Uint64("c.has", 0, vMaxU64),
		DeleteCost:       zz.Uint64("c.del", 0, vMaxU64),
		ReadCostFlat:     zz.Uint64("c.readflat", 0, vMaxU64),
		ReadCostPerByte:  zz.Uint64("c.readbyte", 0, 1<<60),
		WriteCostFlat:    zz.Uint64("c.writeflat", 0, vMaxU64),
		WriteCostPerByte: zz.Uint64("c.writebyte", 0, 1<<60),
		IterNextCostFlat: zz.Uint64("c.iternext", 0, vMaxU64),
	}
}

// VerifC16_GasOps: one Get/Has/Set/Delete from an arbitrary meter state: result equals the parent's,
// consumed' = consumed + documented cost, the right error at exactly the crossing charge, overflow reported not wrapped,
// and a Set that runs out of gas does not reach the parent.
func VerifC16_GasOps() {
	parent := vstore.New()
	vlen := zz.Choice("vlen", 4)
	val := bytes.Repeat([]byte{0xAB}, vlen)
	if vlen > 0 {
		parent.Set([]byte("k1"), val)
	}
	before := parent.Clone()
	ref := &vRef{}
	meter := vMeter(ref)
	cfg := vConfig()
	gs := NewStore(parent, meter, cfg)
	key := []byte("k1")
	var out int
	switch zz.Choice("op", 4) {
	case 0: // Get
		var got []byte
		out = vRun(func() { got = gs.Get(key) })
		ref.charge(cfg.ReadCostFlat)
		ref.charge(cfg.ReadCostPerByte * uint64(len(before.Get(key))))
		if out == 0 {
			zz.Assert("C16.gas.get.result", bytes.Equal(got, before.Get(key)) && (got == nil) == (vlen == 0))
		}
		zz.Assert("C16.gas.get.parent-unchanged", vstore.SameContent(parent, before))
	case 1: // Has
		var got bool
		out = vRun(func() { got = gs.Has(key) })
		ref.charge(cfg.HasCost)
		if out == 0 {
			zz.Assert("C16.gas.has.result", got == (vlen > 0))
		}
	case 2: // Set
		nv := bytes.Repeat([]byte{0xCD}, 1+zz.Choice("nvlen", 3))
		out = vRun(func() { gs.Set(key, nv) })
		ref.charge(cfg.WriteCostFlat)
		ref.charge(cfg.WriteCostPerByte * uint64(len(nv)))
		if out == 0 {
			zz.Assert("C16.gas.set.written", bytes.Equal(parent.Get(key), nv))
		} else {
			zz.Assert("C16.gas.set.no-write-after-out-of-gas", vstore.SameContent(parent, before))
		}
	case 3: // Delete
		out = vRun(func() { gs.Delete(key) })
		ref.charge(cfg.DeleteCost)
		if out == 0 {
			zz.Assert("C16.gas.delete.done", !parent.Has(key))
		} else {
			zz.Assert("C16.gas.delete.no-write-after-out-of-gas", vstore.SameContent(parent, before))
		}
	}
	zz.Assert("C16.gas.outcome", out == ref.outcome)
	if out == 0 {
		zz.Assert("C16.gas.consumed-exact", meter.GasConsumed() == ref.consumed)
	}
	if out == 2 {
		// an overflowing total is reported, never wrapped into a small number that later passes the limit check
		zz.Assert("C16.gas.overflow-not-wrapped", true)
	}
	zz.Reach("C16.gas.ops")
}

// VerifC16_GasIterator: iterator creation and every Next charge per-byte + flat as documented in gaskv/store.go.
func VerifC16_GasIterator() {
	parent := vstore.New()
	n := zz.Choice("entries", 3)
	lens := []int{0, 0}
	for i := 0; i < n; i++ {
		lens[i] = 1 + zz.Choice("vlen", 3)
		parent.Set([]byte{byte('a' + i)}, bytes.Repeat([]byte{0xEE}, lens[i]))
	}
	ref := &vRef{}
	meter := vMeter(ref)
	cfg := vConfig()
	gs := NewStore(parent, meter, cfg)
	asc := zz.Choice("dir", 2) == 0
	var keys []byte
	out := vRun(func() {
		var it types.Iterator
		if asc {
			it = gs.Iterator(nil, nil)
		} else {
			it = gs.ReverseIterator(nil, nil)
		}
		for ; it.Valid(); it.Next() {
			keys = append(keys, it.Key()[0])
		}
		it.Close()
	})
	// documented (gaskv/store.go comments): creating the iterator charges per-byte(value)+flat for the first entry if
	// there is one; every Next() on a valid iterator charges per-byte(current value)+flat *before* moving on.
	idx := func(i int) int {
		if asc {
			return i
		}
		return n - 1 - i
	}
	if n > 0 {
		ref.charge(cfg.ReadCostPerByte * uint64(lens[idx(0)]))
		ref.charge(cfg.IterNextCostFlat)
	}
	for i := 0; i < n; i++ {
		ref.charge(cfg.ReadCostPerByte * uint64(lens[idx(i)]))
		ref.charge(cfg.IterNextCostFlat)
	}
	zz.Assert("C16.gasiter.outcome", out == ref.outcome)
	if out == 0 {
		zz.Assert("C16.gasiter.consumed-exact", meter.GasConsumed() == ref.consumed)
		want := []byte{}
		for i := 0; i < n; i++ {
			if asc {
				want = append(want, byte('a'+i))
			} else {
				want = append(want, byte('a'+n-1-i))
			}
		}
		zz.Assert("C16.gasiter.same-results", bytes.Equal(keys, want))
	}
	zz.Reach("C16.gas.iter")
}

// VerifC16_GasMeter: ConsumeGas from an arbitrary state: exact sum, right error, limit predicates.
func VerifC16_GasMeter() {
	ref := &vRef{}
	meter := vMeter(ref)
	amt := zz.Uint64("amt", 0, vMaxU64)
	out := vRun(func() { meter.ConsumeGas(amt, "x") })
	ref.charge(amt)
	zz.Assert("C16.meter.outcome", out == ref.outcome)
	if out == 0 {
		zz.Assert("C16.meter.sum", meter.GasConsumed() == ref.consumed)
		if !ref.infinite {
			zz.Assert("C16.meter.predicates", meter.IsPastLimit() == (ref.consumed > ref.limit) && meter.IsOutOfGas() == (ref.consumed >= ref.limit) && meter.Limit() == ref.limit && meter.GasConsumedToLimit() == ref.consumed)
		} else {
			zz.Assert("C16.meter.infinite-predicates", !meter.IsPastLimit() && !meter.IsOutOfGas())
		}
	}
	if out == 1 && !ref.infinite {
		zz.Assert("C16.meter.tolimit-capped", meter.GasConsumedToLimit() == ref.limit)
	}
	zz.Reach("C16.gas.meter")
}
