package iavl

import (
	abci "github.com/tendermint/tendermint/abci/types"

	"github.com/pokt-network/posmint/store/types"
	zz "github.com/pokt-network/posmint/zzverif"
	"github.com/pokt-network/posmint/zzverif/vtree"
)

// VNewStore builds an iavl.Store wrapper over an arbitrary Tree (used by /verif harnesses; overlay file).
func VNewStore(tree Tree, numRecent, storeEvery int64) *Store {
	return &Store{tree: tree, numRecent: numRecent, storeEvery: storeEvery}
}

// vRetained: the documented pruning policy: after committing version v a version u (1 <= u <= v) is retained iff it is
// among the keepRecent+1 most recent ones or a multiple of keepEvery.
func vRetained(u, v, keepRecent, keepEvery int64) bool {
	if u >= v-keepRecent {
		return true
	}
	return keepEvery != 0 && u%keepEvery == 0
}

// VerifC12_Pruning: bounded histories of commits through the real iavl.Store.Commit over the tree contract, with symbolic
// keep-recent / keep-every: versions advance by exactly one, the retained set is exactly the policy's, released versions
// are unreadable (error / no value), retained ones return what was committed at that version.
func VerifC12_Pruning() {
	keepRecent := zz.Int64("keep_recent", 0, 4)
	keepEvery := zz.Int64("keep_every", 0, 3)
	tree := vtree.New()
	st := VNewStore(tree, 0, 0)
	st.SetPruning(types.NewPruningOptions(keepRecent, keepEvery))
	n := 5
	if zz.Thorough() {
		n = 7
	}
	for v := int64(1); v <= int64(n); v++ {
		st.Set([]byte("k"), []byte{byte(v)}) // value committed at version v is v
		id := st.Commit()
		zz.Assert("C12.iavl.version-advances-by-one", id.Version == v && st.LastCommitID().Version == v)
		for u := int64(1); u <= v; u++ {
			zz.Assert("C12.iavl.retained-set-is-the-policy", st.VersionExists(u) == vRetained(u, v, keepRecent, keepEvery))
		}
	}
	// read back an arbitrary earlier version
	u := zz.Int64("read_version", 1, int64(n)+1)
	res := st.Query(abci.RequestQuery{Path: "/key", Data: []byte("k"), Height: u})
	if u <= int64(n) && vRetained(u, int64(n), keepRecent, keepEvery) {
		zz.Assert("C12.iavl.retained-version-readable", len(res.Value) == 1 && int64(res.Value[0]) == u)
	} else {
		zz.Assert("C12.iavl.released-or-future-version-unreadable", res.Value == nil && res.Log != "")
		_, err := st.GetImmutable(u)
		zz.Assert("C12.iavl.released-version-not-loadable", err != nil)
	}
	zz.Reach("C12.iavl.pruning")
}
