package prefix

import (
	"bytes"

	"github.com/pokt-network/posmint/store/types"
	zz "github.com/pokt-network/posmint/zzverif"
	"github.com/pokt-network/posmint/zzverif/vstore"
)

// vKey returns a fresh symbolic key whose length is chosen from [minLen,maxLen].
func vKey(name string, minLen, maxLen int) []byte {
	n := minLen + zz.Choice(name+".len", maxLen-minLen+1)
	b := zz.Bytes(name, n)
	if b == nil {
		b = []byte{}
	}
	return b
}

// VerifC16_PrefixEndBytes: for every prefix p (1..3 bytes, any byte incl. 0xFF) and key k (0..4 bytes):
// k has prefix p  <=>  p <= k < PrefixEndBytes(p)   (nil end = unbounded); the input is not modified.
func VerifC16_PrefixEndBytes() {
	p := vKey("p", 1, 3)
	p0 := append([]byte{}, p...)
	e := types.PrefixEndBytes(p)
	zz.Assert("C16.prefixend.input-unchanged", bytes.Equal(p, p0))
	k := vKey("k", 0, 4)
	inRange := bytes.Compare(k, p) >= 0 && (e == nil || bytes.Compare(k, e) < 0)
	zz.Assert("C16.prefixend.range-iff-prefix", bytes.HasPrefix(k, p) == inRange)
	allFF := true
	for _, c := range p {
		if c != 0xFF {
			allFF = false
		}
	}
	zz.Assert("C16.prefixend.nil-iff-all-ff", (e == nil) == allFF)
	// InclusiveEndBytes(k) is the smallest key strictly above k
	ie := types.InclusiveEndBytes(append([]byte{}, k...))
	zz.Assert("C16.inclusiveend", bytes.Compare(k, ie) < 0 && len(ie) == len(k)+1 && bytes.HasPrefix(ie, k) && ie[len(k)] == 0)
	zz.Reach("C16.prefixend")
}

func vParent(n int, klen int) *vstore.Mem {
	m := vstore.New()
	for i := 0; i < n; i++ {
		k := zz.Bytes("pk", klen)
		// distinct keys
		for _, e := range m.E {
			zz.Assume(!bytes.Equal(e.K, k))
		}
		m.E = append(m.E, vstore.KV{K: k, V: []byte{byte(0x10 + i)}})
	}
	return m
}

// VerifC16_PrefixOps: Get/Has/Set/Delete through a prefix store touch exactly parent key prefix||key.
func VerifC16_PrefixOps() {
	parent := vParent(2, 2+zz.Choice("pklen", 2))
	p := vKey("p", 1, 2)
	st := NewStore(parent, p)
	k := vKey("k", 0, 2)
	full := append(append([]byte{}, p...), k...)
	model := parent.Clone()
	switch zz.Choice("op", 4) {
	case 0:
		got := st.Get(k)
		zz.Assert("C16.prefix.get", bytes.Equal(got, model.Get(full)) && (got == nil) == (model.Get(full) == nil))
	case 1:
		zz.Assert("C16.prefix.has", st.Has(k) == model.Has(full))
	case 2:
		v := []byte{0x77}
		st.Set(k, v)
		model.Set(full, v)
	case 3:
		st.Delete(k)
		model.Delete(full)
	}
	zz.Assert("C16.prefix.parent-exact", vstore.SameContent(parent, model))
	zz.Assert("C16.prefix.key-args-unchanged", len(full) == len(p)+len(k) && bytes.HasPrefix(full, p))
	zz.Reach("C16.prefix.ops")
}

// VerifC16_PrefixIterate: iteration (both directions, every bound shape) yields exactly the parent entries
// with the prefix, stripped, inside [start,end), in order.
func VerifC16_PrefixIterate() {
	n := 2
	if zz.Thorough() {
		n = 3
	}
	parent := vParent(n, 2)
	p := vKey("p", 1, 2)
	if zz.Choice("prefix_has_spare_capacity", 2) == 1 {
		// a prefix slice with room behind it, as types.Subspace builds its own (append(name, '/'))
		q := make([]byte, len(p), len(p)+8)
		copy(q, p)
		p = q
	}
	st := NewStore(parent, p)
	var start, end []byte
	if zz.Choice("hasStart", 2) == 1 {
		start = vKey("start", 0, 1)
	}
	if zz.Choice("hasEnd", 2) == 1 {
		end = vKey("end", 1, 1)
	}
	asc := zz.Choice("dir", 2) == 0
	// reference
	var want []vstore.KV
	for _, e := range parent.Sorted(nil, nil) {
		if bytes.HasPrefix(e.K, p) {
			kk := e.K[len(p):]
			if vstore.InDomain(kk, start, end) {
				want = append(want, vstore.KV{K: kk, V: e.V})
			}
		}
	}
	if !asc {
		for i, j := 0, len(want)-1; i < j; i, j = i+1, j-1 {
			want[i], want[j] = want[j], want[i]
		}
	}
	before := parent.Clone()
	var got []vstore.KV
	if asc {
		got = vstore.Drain(st.Iterator(start, end))
	} else {
		got = vstore.Drain(st.ReverseIterator(start, end))
	}
	zz.Assert("C16.prefix.iterate-exact", vstore.EqualKVs(got, want))
	zz.Assert("C16.prefix.iterate-readonly", vstore.SameContent(parent, before))
	zz.Reach("C16.prefix.iterate")
}

type vNopWriter struct{}

func (vNopWriter) Write(p []byte) (int, error) { return len(p), nil }

// VerifC16_PrefixStacking: a prefix store wrapped by CacheWrap / CacheWrapWithTrace (cache over [trace over] prefix
// over parent) and a prefix store over a gas store: operations and the final Write still touch only parent keys
// prefix||key, reads see only the prefixed keys.
func VerifC16_PrefixStacking() {
	parent := vParent(2, 2)
	p := vKey("p", 1, 2)
	st := NewStore(parent, p)
	model := parent.Clone()
	var cw types.CacheWrap
	switch zz.Choice("stack", 2) {
	case 0:
		cw = st.CacheWrap()
	case 1:
		cw = st.CacheWrapWithTrace(vNopWriter{}, types.TraceContext{})
	}
	kv := cw.(types.KVStore)
	k := vKey("k", 0, 2)
	full := append(append([]byte{}, p...), k...)
	before := parent.Clone()
	switch zz.Choice("op", 3) {
	case 0:
		got := kv.Get(k)
		zz.Assert("C16.stack.get", bytes.Equal(got, model.Get(full)) && (got == nil) == (model.Get(full) == nil))
	case 1:
		kv.Set(k, []byte{0x55})
		model.Set(full, []byte{0x55})
	case 2:
		kv.Delete(k)
		model.Delete(full)
	}
	// iteration through the stack sees exactly the prefixed keys of the overlay view
	var want []vstore.KV
	for _, e := range model.Sorted(nil, nil) {
		if bytes.HasPrefix(e.K, p) {
			want = append(want, vstore.KV{K: e.K[len(p):], V: e.V})
		}
	}
	zz.Assert("C16.stack.iterate", vstore.EqualKVs(vstore.Drain(kv.Iterator(nil, nil)), want))
	zz.Assert("C16.stack.parent-untouched-before-write", vstore.SameContent(parent, before))
	cw.Write()
	zz.Assert("C16.stack.write-touches-only-prefixed-key", vstore.SameContent(parent, model))
	zz.Reach("C16.stack")
}
