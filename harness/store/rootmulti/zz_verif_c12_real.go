package rootmulti

import (
	"bytes"

	abci "github.com/tendermint/tendermint/abci/types"
	"github.com/tendermint/tendermint/crypto/merkle"
	dbm "github.com/tendermint/tm-db"

	"github.com/pokt-network/posmint/store/types"
	zz "github.com/pokt-network/posmint/zzverif"
	"github.com/pokt-network/posmint/zzverif/vtree"
)

// The harnesses of this file drive the real root multistore over the real tendermint/iavl tree and an in-memory DB
// (no tree fake): what they establish does not rest on the vtree contract, and they cross-validate it.

type vReal struct {
	db     *vDB
	opts   types.PruningOptions
	late   bool // SetPruning is called after the stores were loaded (both orders are legal)
	k1, k2 *types.KVStoreKey
	k3     *types.KVStoreKey // mounted but empty until block 3
	k4     *types.KVStoreKey // holds one key in versions 1-2, empty again from version 3 on
	tk     *types.TransientStoreKey
	rs     *Store
	ids    [8]types.CommitID
	events int
	crash  int
}

func (w *vReal) open() *Store {
	rs := NewStore(w.db)
	if !w.late {
		rs.SetPruning(w.opts)
	}
	rs.MountStoreWithDB(w.k1, types.StoreTypeIAVL, nil)
	rs.MountStoreWithDB(w.k2, types.StoreTypeIAVL, nil)
	rs.MountStoreWithDB(w.k3, types.StoreTypeIAVL, nil)
	rs.MountStoreWithDB(w.k4, types.StoreTypeIAVL, nil)
	rs.MountStoreWithDB(w.tk, types.StoreTypeTransient, nil)
	return rs
}

// load: LoadLatestVersion / LoadVersion followed by the late SetPruning, as an application does
func (w *vReal) loaded(rs *Store, err error) error {
	if w.late && err == nil {
		rs.SetPruning(w.opts)
	}
	return err
}

func vNewReal() *vReal {
	w := &vReal{crash: 1 << 30}
	w.db = &vDB{MemDB: dbm.NewMemDB(), events: &w.events, crashAt: &w.crash}
	w.opts = types.NewPruningOptions(zz.Int64("keep_recent", 0, 2), zz.Int64("keep_every", 0, 2))
	w.late = zz.Choice("set_pruning_after_load", 2) == 1
	w.k1, w.k2, w.k3, w.k4 = types.NewKVStoreKey("alpha"), types.NewKVStoreKey("beta"), types.NewKVStoreKey("gamma"), types.NewKVStoreKey("delta")
	w.tk = types.NewTransientStoreKey("transient")
	w.rs = w.open()
	zz.Assert("C12.real.load-empty", w.loaded(w.rs, w.rs.LoadLatestVersion()) == nil)
	return w
}

// block writes the content of version v: k=(store,v) in both stores, "only2" lives in alpha at version 2 only.
func (w *vReal) block(rs *Store, v int64) {
	rs.GetKVStore(w.k1).Set([]byte("k"), []byte{1, byte(v)})
	rs.GetKVStore(w.k2).Set([]byte("k"), []byte{2, byte(v)})
	if v == 2 {
		rs.GetKVStore(w.k1).Set([]byte("only2"), []byte{9})
	}
	if v == 3 {
		rs.GetKVStore(w.k1).Delete([]byte("only2"))
	}
	if v >= 3 {
		rs.GetKVStore(w.k3).Set([]byte("g"), []byte{3, byte(v)})
	}
	if v == 1 {
		rs.GetKVStore(w.k4).Set([]byte("d"), []byte{4})
	}
	if v == 3 {
		rs.GetKVStore(w.k4).Delete([]byte("d"))
	}
	// per-block scratch data reaches the transient store the way baseapp's deliver state writes it: through a
	// cache-wrapped multistore that is flushed before Commit
	cms := rs.CacheMultiStore()
	cms.GetKVStore(w.tk).Set([]byte("scratch"), []byte{byte(v)})
	cms.Write()
}

func (w *vReal) commits(n int64) {
	for v := int64(1); v <= n; v++ {
		w.block(w.rs, v)
		w.ids[v] = w.rs.Commit()
		zz.Assert("C12.real.version-advances-by-one", w.ids[v].Version == v)
		zz.Assert("C12.real.transient-empty-after-commit", !w.rs.GetKVStore(w.tk).Has([]byte("scratch")))
	}
}

// contentAt: does rs show exactly the content committed at version v
func (w *vReal) contentAt(rs interface {
	GetKVStore(types.StoreKey) types.KVStore
}, v int64) bool {
	return bytes.Equal(rs.GetKVStore(w.k1).Get([]byte("k")), []byte{1, byte(v)}) &&
		bytes.Equal(rs.GetKVStore(w.k2).Get([]byte("k")), []byte{2, byte(v)}) &&
		rs.GetKVStore(w.k1).Has([]byte("only2")) == (v == 2) &&
		rs.GetKVStore(w.k3).Has([]byte("g")) == (v >= 3) && (v < 3 || bytes.Equal(rs.GetKVStore(w.k3).Get([]byte("g")), []byte{3, byte(v)})) &&
		rs.GetKVStore(w.k4).Has([]byte("d")) == (v == 1 || v == 2)
}

// vRetained: the documented pruning policy (store/iavl Commit): after committing version n, version v < n survives
// iff it never was the version leaving the keep-recent window, or it is a keep-every waypoint.
func vRetained(o types.PruningOptions, v, n int64) bool {
	for c := v + 1; c <= n; c++ {
		if c-1-o.KeepRecent() == v {
			if o.KeepEvery() == 0 || v%o.KeepEvery() != 0 {
				return false
			}
		}
	}
	return true
}

// VerifC12_RealReload: three commits under a symbolic pruning policy, then a fresh Store over the same DB is opened
// at a symbolic target version: a retained version yields exactly the content and hash committed at it, a pruned or
// future one an error.
func VerifC12_RealReload() {
	w := vNewReal()
	const N = 3
	w.commits(N)
	target := zz.Int64("target", 0, N+1)
	retained := target == N || (target >= 1 && target < N && vRetained(w.opts, target, N))
	re := w.open()
	err := w.loaded(re, re.LoadVersion(target))
	switch {
	case target == 0:
		// (tendermint/iavl reads target version 0 as "latest": the substores of such a Store show the latest content;
		// the property says nothing about version 0 of a non-empty database)
		zz.Assert("C12.real.version0-loads", err == nil && re.LastCommitID().Version == 0)
	case target > N:
		zz.Assert("C12.real.future-version-refused", err != nil)
	case retained:
		zz.Assert("C12.real.retained-version-loads", err == nil)
		if err == nil {
			zz.Assert("C12.real.reloaded-hash-is-committed-hash", bytes.Equal(re.LastCommitID().Hash, w.ids[target].Hash) && re.LastCommitID().Version == target)
			zz.Assert("C12.real.reloaded-content", w.contentAt(re, target))
		}
	default:
		zz.Assert("C12.real.pruned-version-unreadable", err != nil)
	}
	if err != nil {
		zz.Assert("C12.real.failed-load-leaves-commit-id-alone", re.LastCommitID().Version == 0 && len(re.LastCommitID().Hash) == 0)
		// ... also on a store object that is in use: the running store stays at its latest version and goes on committing
		lerr := w.rs.LoadVersion(target)
		if lerr != nil {
			zz.Assert("C12.real.failed-load-on-running-store-keeps-sequence", w.rs.LastCommitID().Version == N && bytes.Equal(w.rs.LastCommitID().Hash, w.ids[N].Hash))
		}
	}
	// a versioned view of the running store shows committed content only, also for the latest version while the next
	// block's writes are pending
	w.block(w.rs, N+1)
	for v := int64(1); v <= N; v++ {
		if v == N || vRetained(w.opts, v, N) {
			cms, verr := w.rs.CacheMultiStoreWithVersion(v)
			zz.Assert("C12.real.versioned-view-opens", verr == nil)
			if verr == nil {
				zz.Assert("C12.real.versioned-view-shows-committed-content", w.contentAt(cms, v))
			}
		}
	}
	// latest reopen
	re2 := w.open()
	zz.Assert("C12.real.latest-reopens", w.loaded(re2, re2.LoadLatestVersion()) == nil && bytes.Equal(re2.LastCommitID().Hash, w.ids[N].Hash) && w.contentAt(re2, N))
	zz.Reach("C12.real.end")
}

// VerifC11_HistoricalCopy: the copy the base application opens for historical contexts and custom queries
// (CopyStore + LoadVersion at any height, including 0 = before the first commit) leaves the live multistore untouched.
func VerifC11_HistoricalCopy() { vHistoricalCopy("C11.copy") }

// VerifC12_HistoricalCopyKeepsCommits: the same, read as durability: what a block wrote while a historical copy was
// opened (at any height, 0 included) is committed and found by a reopened store.
func VerifC12_HistoricalCopyKeepsCommits() { vHistoricalCopy("C12.copy") }

func vHistoricalCopy(p string) {
	w := vNewReal()
	n := int64(zz.Choice("commits", 3))
	w.commits(n)
	w.block(w.rs, n+1) // uncommitted working state of the next block (not visible on the root store until Commit, but written to the trees)
	live1, live2 := w.rs.stores[w.k1], w.rs.stores[w.k2]
	liveID := w.rs.LastCommitID()
	target := zz.Int64("target", 0, 3)
	cp := (*w.rs.CopyStore()).(*Store)
	err := cp.LoadVersion(target)
	zz.Assert(p+".live-substores-untouched", w.rs.stores[w.k1] == live1 && w.rs.stores[w.k2] == live2)
	zz.Assert(p+".live-commit-id-untouched", w.rs.LastCommitID().Version == liveID.Version && bytes.Equal(w.rs.LastCommitID().Hash, liveID.Hash))
	zz.Assert(p+".live-working-state-untouched", w.contentAt(w.rs, n+1))
	if err == nil && target >= 1 && target <= n {
		zz.Assert(p+".sees-history", w.contentAt(cp, target))
	}
	id := w.rs.Commit()
	zz.Assert(p+".next-commit-unaffected", id.Version == n+1)
	re := w.open()
	zz.Assert(p+".next-commit-holds-working-state", w.loaded(re, re.LoadLatestVersion()) == nil && w.contentAt(re, n+1))
	zz.Reach(p + ".end")
}

// VerifC13_RealCrash: the process dies at a symbolic DB write event of the third Commit (every tree flush, every
// pruning flush, the commit-info batch - each one atomic batch write of the DB): a fresh process reopening the DB
// finds either the complete previous version or the complete new one, and re-running the block gives the same id.
func VerifC13_RealCrash() {
	w := vNewReal()
	n := int64(zz.Choice("commits_before", 3)) // the interrupted commit is the first, second or third one
	w.commits(n)
	// uninterrupted reference run on the same history (a second world over its own DB)
	ref := vNewRealWith(w.opts)
	ref.late = w.late
	ref.commits(n + 1)

	w.block(w.rs, n+1)
	before := w.events
	w.crash = before + int(zz.Int64("crash_at", 0, 8))
	crashed := false
	func() {
		defer func() {
			if r := recover(); r != nil {
				if _, ok := r.(vtree.Crash); !ok {
					panic(r)
				}
				crashed = true
			}
		}()
		w.rs.Commit()
	}()
	total := w.events - before
	w.crash = 1 << 30
	if !crashed {
		zz.Reach("C13.real.no-crash")
		zz.Assert("C13.real.events-counted", total >= 3)
	}
	re := w.open()
	err := w.loaded(re, re.LoadLatestVersion())
	known := zz.Known("prune-releases-previous-version-before-flush") && w.opts.KeepRecent() == 0
	if err != nil {
		if !known {
			zz.Assert("C13.real.reopen-succeeds", false)
		}
		return
	}
	v := re.LastCommitID().Version
	zz.Assert("C13.real.previous-or-new", v == n || v == n+1)
	// known finding first-commit-crash-leaves-substores-ahead: a crash inside the very first Commit after at least one
	// substore saved version 1 reopens at multistore version 0 whose substores (tendermint/iavl reads target version 0
	// as "latest") already show version-1 content, and re-executing block 1 then saves them as version 2
	if zz.Known("first-commit-crash-leaves-substores-ahead") && n == 0 && crashed && v == 0 && w.events > before {
		zz.Reach("C13.real.known-region-first-commit")
		return
	}
	if v >= 1 {
		zz.Assert("C13.real.complete-version-across-stores", w.contentAt(re, v))
	} else {
		zz.Assert("C13.real.complete-version-across-stores", !re.GetKVStore(w.k1).Has([]byte("k")) && !re.GetKVStore(w.k2).Has([]byte("k")))
	}
	if v == n {
		w.block(re, n+1)
		id := re.Commit()
		zz.Assert("C13.real.reexecution-same-hash", id.Version == n+1 && bytes.Equal(id.Hash, ref.ids[n+1].Hash))
	} else {
		zz.Assert("C13.real.new-version-hash", bytes.Equal(re.LastCommitID().Hash, ref.ids[n+1].Hash))
	}
	zz.Reach("C13.real.end")
}

func vNewRealWith(o types.PruningOptions) *vReal {
	w := &vReal{crash: 1 << 30}
	w.db = &vDB{MemDB: dbm.NewMemDB(), events: &w.events, crashAt: &w.crash}
	w.opts = o
	w.k1, w.k2, w.k3, w.k4 = types.NewKVStoreKey("alpha"), types.NewKVStoreKey("beta"), types.NewKVStoreKey("gamma"), types.NewKVStoreKey("delta")
	w.tk = types.NewTransientStoreKey("transient")
	w.rs = w.open()
	zz.Assert("C12.real.load-empty", w.loaded(w.rs, w.rs.LoadLatestVersion()) == nil)
	return w
}

// VerifC14_RealQuery: store queries with real IAVL proofs: value committed at the (effective) height, proof verifies
// against that height's app hash and against no other height's, nothing for pruned/future heights.
func VerifC14_RealQuery() {
	w := vNewReal()
	const N = 4
	w.commits(N)
	w.block(w.rs, N+1) // a later block being executed
	si := zz.Choice("store", 3)
	name := []string{"alpha", "beta", "delta"}[si]
	key := [][]byte{[]byte("k"), []byte("only2"), []byte("zz"), []byte("a")}[zz.Choice("key", 4)]
	if si == 2 {
		key = []byte("d")
	}
	h := zz.Int64("height", 0, N+1)
	prove := zz.Bool("prove")
	// asked of the running store, or of a store freshly reopened from the database (a restarted node)
	q := w.rs
	if zz.Choice("via_reopened_store", 2) == 1 {
		q = w.open()
		zz.Assert("C14.real.reopens", w.loaded(q, q.LoadLatestVersion()) == nil)
	}
	res := q.Query(abci.RequestQuery{Path: "/" + name + "/key", Data: key, Height: h, Prove: prove})

	exists := func(v int64) bool { return v == N || (v >= 1 && v < N && vRetained(w.opts, v, N)) }
	he := h
	if h == 0 {
		he = N
		if exists(N - 1) {
			he = N - 1
		}
	}
	var want []byte
	switch {
	case string(key) == "k" && si < 2:
		for v := int64(0); v <= N+1; v++ { // (concrete bytes: the proof check hashes the value)
			if he == v {
				want = []byte{byte(si + 1), byte(v)}
			}
		}
	case string(key) == "only2" && si == 0 && he == 2:
		want = []byte{9}
	case si == 2 && (he == 1 || he == 2):
		want = []byte{4}
	}
	// a historical view (what custom queries open) of a height that was never committed cannot be opened
	fut := (*w.rs.CopyStore()).(*Store)
	zz.Assert("C14.real.future-height-view-cannot-be-opened", fut.LoadVersion(N+2) != nil)
	if !exists(he) {
		zz.Assert("C14.real.pruned-or-future-height-no-value", len(res.Value) == 0)
		zz.Assert("C14.real.pruned-or-future-height-no-proof", res.Proof == nil || len(res.Proof.Ops) == 0)
		zz.Reach("C14.real.unavailable")
		return
	}
	zz.Assert("C14.real.ok", res.Code == 0)
	zz.Assert("C14.real.height-reported", res.Height == he)
	zz.Assert("C14.real.value-committed-at-height", bytes.Equal(res.Value, want))
	if prove {
		zz.Assert("C14.real.proof-present", res.Proof != nil && len(res.Proof.Ops) == 2)
		prt := DefaultProofRuntime()
		kp := merkle.KeyPath{}
		kp = kp.AppendKey([]byte(name), merkle.KeyEncodingURL)
		kp = kp.AppendKey(key, merkle.KeyEncodingURL)
		verify := func(root []byte) error {
			if want != nil {
				return prt.VerifyValue(res.Proof, root, kp.String(), want)
			}
			return prt.VerifyAbsence(res.Proof, root, kp.String())
		}
		if e := verify(w.ids[he].Hash); e != nil {
			zz.Logf("verify error: %v", e.Error())
		}
		zz.Assert("C14.real.proof-verifies-against-app-hash-of-height", verify(w.ids[he].Hash) == nil)
		for o := int64(1); o <= N; o++ {
			if o != he {
				zz.Assert("C14.real.proof-fails-against-other-height", verify(w.ids[o].Hash) != nil)
			}
		}
		if want != nil {
			zz.Assert("C14.real.proof-fails-for-other-value", prt.VerifyValue(res.Proof, w.ids[he].Hash, kp.String(), []byte{0xEE}) != nil)
			zz.Assert("C14.real.existence-proof-is-no-absence-proof", prt.VerifyAbsence(res.Proof, w.ids[he].Hash, kp.String()) != nil)
		} else {
			zz.Assert("C14.real.absence-proof-is-no-existence-proof", prt.VerifyValue(res.Proof, w.ids[he].Hash, kp.String(), []byte{9}) != nil)
		}
		zz.Reach("C14.real.proved")
	}
	zz.Reach("C14.real.end")
}

// vOp applies the op-th write of a small alphabet to store k of rs and to the model m (key -> value, "" = absent).
func vOp(rs *Store, k types.StoreKey, m map[string]string, op int, tag byte) {
	st := rs.GetKVStore(k)
	switch op {
	case 0:
		st.Set([]byte("a"), []byte{tag})
		m["a"] = string([]byte{tag})
	case 1:
		st.Set([]byte("b"), []byte{tag, tag})
		m["b"] = string([]byte{tag, tag})
	case 2:
		st.Delete([]byte("a"))
		delete(m, "a")
	case 3:
		st.Set([]byte("ab"), []byte{})
		m["ab"] = ""
	}
}

func vCopyModel(m map[string]string) map[string]string {
	c := map[string]string{}
	for k, v := range m {
		c[k] = v
	}
	return c
}

// vSameAsModel: rs's store k holds exactly the model (every candidate key, and iteration finds nothing else).
func vSameAsModel(rs *Store, k types.StoreKey, m map[string]string) bool {
	st := rs.GetKVStore(k)
	for _, key := range []string{"a", "b", "ab", "c"} {
		v, ok := m[key]
		if st.Has([]byte(key)) != ok {
			return false
		}
		if ok && string(st.Get([]byte(key))) != v {
			return false
		}
	}
	// and iteration (store/iavl's iterator goroutine + channels) finds exactly the model
	n := 0
	it := st.Iterator(nil, nil)
	for ; it.Valid(); it.Next() {
		if v, ok := m[string(it.Key())]; !ok || v != string(it.Value()) {
			it.Close()
			return false
		}
		n++
	}
	it.Close()
	if n != len(m) {
		return false
	}
	// descending: the same entries in the opposite order
	var fwd, bwd []string
	it = st.Iterator(nil, nil)
	for ; it.Valid(); it.Next() {
		fwd = append(fwd, string(it.Key()))
	}
	it.Close()
	rit := st.ReverseIterator(nil, nil)
	for ; rit.Valid(); rit.Next() {
		bwd = append(bwd, string(rit.Key()))
	}
	rit.Close()
	if len(fwd) != len(bwd) {
		return false
	}
	for i := range fwd {
		if fwd[i] != bwd[len(bwd)-1-i] || (i > 0 && fwd[i-1] >= fwd[i]) {
			return false
		}
	}
	return true
}

// VerifC12_RealHistory: a symbolic program of writes/deletes (one op per store per block, from an alphabet with
// overwrites, deletes, prefix-adjacent keys and empty values) over three commits on the real tree; every retained
// version reopens to exactly the content the model had at that commit, across both stores.
func VerifC12_RealHistory() {
	w := vNewReal()
	const N = 3
	m1, m2 := map[string]string{}, map[string]string{}
	var snap1, snap2 [N + 1]map[string]string
	for v := int64(1); v <= N; v++ {
		vOp(w.rs, w.k1, m1, zz.Choice("op1", 4), byte(v))
		if v != 2 { // beta is not written in block 2 (an unchanged store still gets a new version)
			n2 := 3
			if zz.Thorough() {
				n2 = 4
			}
			vOp(w.rs, w.k2, m2, zz.Choice("op2", n2), byte(16+v))
		}
		id := w.rs.Commit()
		zz.Assert("C12.realhist.version-advances-by-one", id.Version == v)
		snap1[v], snap2[v] = vCopyModel(m1), vCopyModel(m2)
	}
	target := int64(1 + zz.Choice("target", N))
	retained := target == N || vRetained(w.opts, target, N)
	re := w.open()
	err := w.loaded(re, re.LoadVersion(target))
	if retained {
		zz.Assert("C12.realhist.retained-version-loads", err == nil)
		if err == nil {
			zz.Assert("C12.realhist.content-of-that-version", vSameAsModel(re, w.k1, snap1[target]) && vSameAsModel(re, w.k2, snap2[target]))
		}
	} else {
		zz.Assert("C12.realhist.pruned-version-unreadable", err != nil)
	}
	zz.Reach("C12.realhist.end")
}

// VerifC01_RestartSameHash: two replicas execute the same three blocks over the real tree; one of them is stopped and
// reopened from its database after a symbolic block: both report the same commit id at every height, and the
// reopened replica's state equals the uninterrupted one's.
func VerifC01_RestartSameHash() {
	a := vNewReal()
	b := vNewRealWith(a.opts)
	restartAfter := int64(zz.Choice("restart_after", 4)) // 0 = never
	ops := [3]int{zz.Choice("op.1", 4), zz.Choice("op.2", 4), zz.Choice("op.3", 4)}
	ma, mb := map[string]string{}, map[string]string{}
	for v := int64(1); v <= 3; v++ {
		a.block(a.rs, v)
		b.block(b.rs, v)
		vOp(a.rs, a.k1, ma, ops[v-1], byte(v))
		vOp(b.rs, b.k1, mb, ops[v-1], byte(v))
		ia, ib := a.rs.Commit(), b.rs.Commit()
		zz.Assert("C01.restart.same-commit-id", ia.Version == ib.Version && bytes.Equal(ia.Hash, ib.Hash))
		if v == restartAfter {
			b.rs = b.open()
			zz.Assert("C01.restart.reopens", b.loaded(b.rs, b.rs.LoadLatestVersion()) == nil)
			zz.Assert("C01.restart.same-last-commit-id", bytes.Equal(b.rs.LastCommitID().Hash, ia.Hash) && b.rs.LastCommitID().Version == v)
			zz.Assert("C01.restart.same-state", vSameAsModel(b.rs, b.k1, withBlock(ma, v)) && vSameAsModel(a.rs, a.k1, withBlock(ma, v)))
		}
	}
	zz.Reach("C01.restart.end")
}

// withBlock: the model plus what vReal.block wrote up to version v in store alpha.
func withBlock(m map[string]string, v int64) map[string]string {
	c := vCopyModel(m)
	c["k"] = string([]byte{1, byte(v)})
	if v == 2 {
		c["only2"] = string([]byte{9})
	}
	return c
}

// VerifC14_QueryAfterCrashInsideCommit: the process died inside Commit(3) at a symbolic write; after the restart a
// query - with or without proof - for height 3 returns value and proof only if version 3 is the committed latest
// version; if the node reopened at version 2, height 3 is a future height: no value with a proof, never data of a
// half-written version presented as proven.
func VerifC14_QueryAfterCrashInsideCommit() {
	w := vNewReal()
	w.commits(2)
	w.block(w.rs, 3)
	before := w.events
	w.crash = before + int(zz.Int64("crash_at", 0, 10))
	func() {
		defer func() {
			if r := recover(); r != nil {
				if _, ok := r.(vtree.Crash); !ok {
					panic(r)
				}
			}
		}()
		w.rs.Commit()
	}()
	w.crash = 1 << 30
	re := w.open()
	if w.loaded(re, re.LoadLatestVersion()) != nil {
		zz.Reach("C14.crashquery.unopenable") // (C13's concern)
		return
	}
	latest := re.LastCommitID().Version
	prove := zz.Bool("prove")
	res := re.Query(abci.RequestQuery{Path: "/alpha/key", Data: []byte("k"), Height: 3, Prove: prove})
	if latest == 3 {
		zz.Assert("C14.crashquery.committed-height-answers", bytes.Equal(res.Value, []byte{1, 3}))
	} else if prove {
		zz.Assert("C14.crashquery.uncommitted-height-gives-no-proven-data", len(res.Value) == 0 && (res.Proof == nil || len(res.Proof.Ops) == 0))
	}
	zz.Reach("C14.crashquery.end")
}

// VerifC12_InPlaceReloadKeepsPolicy: pruning options set after the stores were loaded still govern the stores after
// the multistore reloads itself in place (LoadVersion of its latest version on the same object): the versions the
// policy retains stay readable over the following commits.
func VerifC12_InPlaceReloadKeepsPolicy() {
	w := vNewReal()
	w.commits(2)
	zz.Assert("C12.inplace.reload", w.rs.LoadVersion(2) == nil) // (the options were set before; they are not set again)
	for v := int64(3); v <= 4; v++ {
		w.block(w.rs, v)
		w.ids[v] = w.rs.Commit()
		zz.Assert("C12.inplace.version-advances-by-one", w.ids[v].Version == v)
	}
	const N = 4
	target := int64(1 + zz.Choice("target", N))
	re := w.open()
	err := w.loaded(re, re.LoadVersion(target))
	if target == N || vRetained(w.opts, target, N) {
		zz.Assert("C12.inplace.retained-version-still-readable", err == nil && w.contentAt(re, target))
	} else {
		zz.Assert("C12.inplace.pruned-version-unreadable", err != nil)
	}
	zz.Reach("C12.inplace.end")
}
