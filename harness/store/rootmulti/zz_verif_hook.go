package rootmulti

import (
	dbm "github.com/tendermint/tm-db"

	"github.com/pokt-network/posmint/store/types"
)

// VNewStoreWith builds a root multistore whose substores are the given (fake) commit stores, as LoadVersion would
// after mounting them. Used by /verif harnesses only (overlay file, not part of the repository).
func VNewStoreWith(db dbm.DB, keys []types.StoreKey, stores []types.CommitStore) *Store {
	rs := NewStore(db)
	for i, k := range keys {
		rs.storesParams[k] = storeParams{key: k, typ: stores[i].GetStoreType()}
		rs.keysByName[k.Name()] = k
		rs.stores[k] = stores[i]
	}
	return rs
}
