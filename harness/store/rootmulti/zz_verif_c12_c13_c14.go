package rootmulti

import (
	"bytes"

	abci "github.com/tendermint/tendermint/abci/types"
	dbm "github.com/tendermint/tm-db"

	"github.com/pokt-network/posmint/store/iavl"
	"github.com/pokt-network/posmint/store/transient"
	"github.com/pokt-network/posmint/store/types"
	zz "github.com/pokt-network/posmint/zzverif"
	"github.com/pokt-network/posmint/zzverif/vtree"
)

// ---- a DB whose batch write is one atomic write event (crash injection shares the counter with the trees) ----

type vDB struct {
	*dbm.MemDB
	events  *int
	crashAt *int
}

type vBatch struct {
	dbm.Batch
	db *vDB
}

func (d *vDB) NewBatch() dbm.Batch { return &vBatch{Batch: d.MemDB.NewBatch(), db: d} }
func (b *vBatch) Write() {
	if b.db.crashAt != nil && *b.db.events >= *b.db.crashAt {
		panic(vtree.Crash{})
	}
	*b.db.events++
	b.Batch.Write()
}
func (b *vBatch) WriteSync() { b.Write() }

type vWorld struct {
	db     *vDB
	rs     *Store
	keys   []types.StoreKey
	trees  []*vtree.Tree
	tkey   *types.TransientStoreKey
	tstore *transient.Store
	events int
	crash  int
}

// vNewWorld: n IAVL-wrapped substores (real store/iavl.Store over the tree contract) + one transient store.
func vNewWorld(n int, opts types.PruningOptions) *vWorld {
	w := &vWorld{crash: 1 << 30}
	w.db = &vDB{MemDB: dbm.NewMemDB(), events: &w.events, crashAt: &w.crash}
	var stores []types.CommitStore
	for i := 0; i < n; i++ {
		k := types.NewKVStoreKey([]string{"alpha", "beta", "gamma"}[i])
		t := vtree.New()
		t.Events, t.CrashAt = &w.events, &w.crash
		st := iavl.VNewStore(t, 0, 0)
		st.SetPruning(opts)
		w.keys = append(w.keys, k)
		w.trees = append(w.trees, t)
		stores = append(stores, st)
	}
	w.tkey = types.NewTransientStoreKey("transient")
	w.tstore = transient.NewStore()
	w.rs = VNewStoreWith(w.db, append(append([]types.StoreKey{}, w.keys...), w.tkey), append(stores, w.tstore))
	w.rs.pruningOpts = opts
	return w
}

// write puts a value identifying (store, version) into every substore.
func (w *vWorld) write(version int64) {
	for i, k := range w.keys {
		w.rs.GetKVStore(k).Set([]byte("k"), []byte{byte(i), byte(version)})
	}
	w.rs.GetKVStore(w.tkey).Set([]byte("t"), []byte{1})
}

// reopen: what a freshly started process reads back: latest version + commit info + availability of that version in every tree.
func (w *vWorld) reopen() (latest int64, loadable bool) {
	latest = getLatestVersion(w.db)
	if latest == 0 {
		return 0, true
	}
	ci, err := getCommitInfo(w.db, latest)
	if err != nil {
		return latest, false
	}
	loadable = true
	for i, k := range w.keys {
		var id types.CommitID
		for _, si := range ci.StoreInfos {
			if si.Name == k.Name() {
				id = si.Core.CommitID
			}
		}
		if !w.trees[i].VersionExists(id.Version) || id.Version != latest {
			loadable = false
		}
	}
	return
}

func vPruning() types.PruningOptions {
	return types.NewPruningOptions(zz.Int64("keep_recent", 0, 3), zz.Int64("keep_every", 0, 2))
}

// VerifC12_Commit: a bounded history of commits over 1-2 IAVL-wrapped substores + a transient store: version +1,
// commit info and latest marker flushed, LastCommitID == what a fresh reader of the DB reconstructs, transient emptied.
func VerifC12_Commit() {
	n := 1 + zz.Choice("stores", 2)
	w := vNewWorld(n, vPruning())
	for v := int64(1); v <= 3; v++ {
		w.write(v)
		id := w.rs.Commit()
		zz.Assert("C12.multi.version-advances-by-one", id.Version == v && w.rs.LastCommitID().Version == v)
		latest, loadable := w.reopen()
		zz.Assert("C12.multi.reopen-sees-latest", latest == v && loadable)
		ci, err := getCommitInfo(w.db, v)
		zz.Assert("C12.multi.commit-info-hash-is-commit-hash", err == nil && bytes.Equal(ci.Hash(), id.Hash) && bytes.Equal(ci.CommitID().Hash, w.rs.LastCommitID().Hash) && len(ci.StoreInfos) == n)
		it := w.tstore.Iterator(nil, nil)
		zz.Assert("C12.multi.transient-empty-after-commit", !it.Valid())
		it.Close()
		for i := range w.keys {
			_, val := w.trees[i].GetVersioned([]byte("k"), v)
			zz.Assert("C12.multi.content-committed-at-version", bytes.Equal(val, []byte{byte(i), byte(v)}))
		}
	}
	zz.Reach("C12.multi.commit")
}

// VerifC13_CrashDuringCommit: the process dies at a symbolic write event of one Commit (substore version saves, pruning
// deletes, the commit-info batch): reopening finds a latest version that every substore can still load - the complete
// previous version or the complete new one - and re-running the block from there yields the same commit id.
func VerifC13_CrashDuringCommit() {
	n := 1 + zz.Choice("stores", 2)
	opts := vPruning()
	w := vNewWorld(n, opts)
	// two uninterrupted commits first
	for v := int64(1); v <= 2; v++ {
		w.write(v)
		w.rs.Commit()
	}
	// reference: what an uninterrupted third commit returns (run on an identical twin world)
	twin := vNewWorld(n, opts)
	for v := int64(1); v <= 3; v++ {
		twin.write(v)
		twin.rs.Commit()
	}
	want := twin.rs.LastCommitID()
	// the interrupted commit
	w.write(3)
	w.crash = w.events + int(zz.Int64("crash_after_events", 0, 8))
	crashed := false
	func() {
		defer func() {
			if r := recover(); r != nil {
				if _, ok := r.(vtree.Crash); !ok {
					panic(r)
				}
				crashed = true
			}
		}()
		w.rs.Commit()
	}()
	w.crash = 1 << 30
	latest, loadable := w.reopen()
	zz.Assert("C13.crash.reopen-finds-previous-or-new-version", latest == 2 || latest == 3)
	// known finding prune-releases-previous-version-before-flush: when the pruning policy releases version v-1 while
	// committing v (keep-recent = 0 and v-1 not a keep-every multiple), a crash after a substore has pruned but before the
	// commit-info batch is flushed leaves "latest = v-1" pointing at a version that substore no longer has.
	kr, ke := opts.KeepRecent(), opts.KeepEvery()
	previousReleased := kr == 0 && !(ke != 0 && 2%ke == 0)
	if zz.Known("prune-releases-previous-version-before-flush") && previousReleased && crashed && latest == 2 {
		zz.Reach("C13.crash.known-region")
		return
	}
	zz.Assert("C13.crash.every-store-can-load-the-latest-version", loadable)
	if !crashed {
		zz.Assert("C13.crash.uninterrupted-commit-complete", latest == 3)
	}
	if loadable && latest == 3 {
		ci, _ := getCommitInfo(w.db, 3)
		zz.Assert("C13.crash.new-version-hash-equals-uninterrupted-run", bytes.Equal(ci.CommitID().Hash, want.Hash))
	}
	// the restarted process loads `latest` in every substore and re-executes the interrupted block: same hash as the
	// uninterrupted run, no panic (a substore that had already saved / pruned for version 3 must tolerate the repetition)
	if loadable && latest == 2 {
		for _, t := range w.trees {
			t.LoadVersion(2)
		}
		w.rs.lastCommitID = types.CommitID{Version: 2}
		w.write(3)
		var id types.CommitID
		replayPanicked := false
		func() {
			defer func() {
				if r := recover(); r != nil {
					replayPanicked = true
				}
			}()
			id = w.rs.Commit()
		}()
		zz.Assert("C13.crash.re-executed-block-does-not-panic", !replayPanicked)
		if !replayPanicked {
			zz.Assert("C13.crash.re-executed-block-same-hash", id.Version == 3 && bytes.Equal(id.Hash, want.Hash))
		}
	}
	zz.Reach("C13.crash")
}

// VerifC14_Query: store queries by height through rootmulti.Query / iavl.Store.Query: the value committed at the answered
// height, nothing for pruned / future heights, later uncommitted writes invisible, and with Prove the appended
// multistore proof op is built from the commit info of the answered height.
func VerifC14_Query() {
	w := vNewWorld(2, vPruning())
	for v := int64(1); v <= 4; v++ {
		w.write(v)
		if v == 3 {
			w.rs.GetKVStore(w.keys[0]).Delete([]byte("k")) // absent at version 3
		}
		if v == 2 {
			w.rs.GetKVStore(w.keys[0]).Set([]byte("k"), []byte{}) // present with an empty value at version 2
		}
		w.rs.Commit()
	}
	// uncommitted write on top
	w.rs.GetKVStore(w.keys[0]).Set([]byte("k"), []byte{0xEE})
	h := zz.Int64("height", 0, 6)
	prove := zz.Choice("prove", 2) == 1
	res := w.rs.Query(abci.RequestQuery{Path: "/alpha/key", Data: []byte("k"), Height: h, Prove: prove})
	answered := h
	if h == 0 {
		// documented defaulting: latest-1 if available, else latest
		if w.trees[0].VersionExists(3) {
			answered = 3
		} else {
			answered = 4
		}
	}
	exists := answered >= 1 && answered <= 4 && w.trees[0].VersionExists(answered)
	if exists {
		var want []byte
		if answered != 3 {
			want = []byte{0, byte(answered)}
		}
		if answered == 2 {
			want = []byte{}
		}
		zz.Assert("C14.query.value-committed-at-that-height", bytes.Equal(res.Value, want) && (prove || (res.Value == nil) == (want == nil)))
		if prove {
			ci, err := getCommitInfo(w.db, answered)
			zz.Assert("C14.query.proof-has-store-op-and-multistore-op", err == nil && res.Proof != nil && len(res.Proof.Ops) == 2)
			if res.Proof != nil && len(res.Proof.Ops) == 2 {
				// existence proof for a key that exists at that height (even with an empty value), absence proof otherwise
				wantType := "iavl:v"
				if answered == 3 {
					wantType = "iavl:a"
				}
				zz.Assert("C14.query.existence-vs-absence-proof", res.Proof.Ops[0].Type == wantType)
				wantOp := NewMultiStoreProofOp([]byte("alpha"), NewMultiStoreProof(ci.StoreInfos)).ProofOp()
				zz.Assert("C14.query.multistore-op-built-from-commit-info-of-that-height", bytes.Equal(res.Proof.Ops[1].Data, wantOp.Data) && bytes.Equal(res.Proof.Ops[1].Key, []byte("alpha")))
			}
		}
	} else {
		zz.Assert("C14.query.pruned-or-future-height-returns-nothing", res.Value == nil && (res.Proof == nil || len(res.Proof.Ops) == 0))
	}
	zz.Reach("C14.query")
}

// VerifC01_TransientWiped: restart-equivalence slice of C01: a process that is stopped after a Commit and reopened starts
// with empty transient stores, so a running instance must hold nothing in them after Commit either - whatever was written
// during the block and whatever the pruning options are.
func VerifC01_TransientWiped() {
	w := vNewWorld(1+zz.Choice("stores", 2), vPruning())
	for v := int64(1); v <= 2; v++ {
		w.write(v)
		w.rs.GetKVStore(w.tkey).Set(zz.Bytes("tk", 1), []byte{byte(v)})
		w.rs.Commit()
		it := w.rs.GetKVStore(w.tkey).Iterator(nil, nil)
		zz.Assert("C01.restart.transient-state-does-not-survive-commit", !it.Valid())
		it.Close()
	}
	zz.Reach("C01.transient")
}

// VNewCommittedWorld is used by the baseapp harness: a root multistore over two tree-contract substores with `commits`
// committed versions (value of key "k" in store alpha at version v is {0, v}).
func VNewCommittedWorld(commits int64, keepRecent, keepEvery int64) *Store {
	w := vNewWorld(2, types.NewPruningOptions(keepRecent, keepEvery))
	for v := int64(1); v <= commits; v++ {
		w.write(v)
		w.rs.Commit()
	}
	return w.rs
}
