package tracekv

import (
	"bytes"
	"encoding/base64"
	"encoding/json"

	"github.com/pokt-network/posmint/store/types"
	zz "github.com/pokt-network/posmint/zzverif"
	"github.com/pokt-network/posmint/zzverif/vstore"
)

// vRecorder keeps every chunk written by the traced store.
type vRecorder struct{ chunks [][]byte }

func (r *vRecorder) Write(p []byte) (int, error) {
	r.chunks = append(r.chunks, append([]byte{}, p...))
	return len(p), nil
}

type vExpected struct {
	op       operation
	key, val []byte
}

// VerifC16_Trace: a program of 3 operations over a traced store: results equal the wrapped store's, and the trace holds
// exactly one JSON line per traced operation, in call order, with the operation kind and base64 key/value
// (Has is documented as untraced).
func VerifC16_Trace() {
	parent := vstore.New()
	parent.Set([]byte("ka"), []byte("va"))
	parent.Set([]byte("kb"), []byte("vb"))
	ref := parent.Clone()
	rec := &vRecorder{}
	st := NewStore(parent, rec, types.TraceContext{"blockHeight": 64})
	parent.Set([]byte{0xFB, 0xFF}, []byte{0xFF, 0xFE}) // binary key/value (base64 with '+' and '/')
	ref = parent.Clone()
	keys := [][]byte{[]byte("ka"), []byte("kb"), []byte("kc"), {0xFB, 0xFF}}
	var want []vExpected
	steps := 2
	if zz.Thorough() {
		steps = 3
	}
	for i := 0; i < steps; i++ {
		op := zz.Choice("op", 6)
		var k []byte
		if op <= 3 {
			k = keys[zz.Choice("key", 4)]
		}
		switch op {
		case 0:
			got := st.Get(k)
			exp := ref.Get(k)
			zz.Assert("C16.trace.get-transparent", bytes.Equal(got, exp) && (got == nil) == (exp == nil))
			want = append(want, vExpected{readOp, k, exp})
		case 1:
			v := []byte{byte('0' + i)}
			st.Set(k, v)
			ref.Set(k, v)
			want = append(want, vExpected{writeOp, k, v})
		case 2:
			st.Delete(k)
			ref.Delete(k)
			want = append(want, vExpected{deleteOp, k, nil})
		case 3:
			zz.Assert("C16.trace.has-transparent", st.Has(k) == ref.Has(k))
		case 4:
			it := st.Iterator(nil, nil)
			for _, e := range ref.Sorted(nil, nil) {
				zz.Assert("C16.trace.iterator-transparent", it.Valid() && bytes.Equal(it.Key(), e.K) && bytes.Equal(it.Value(), e.V))
				want = append(want, vExpected{iterKeyOp, e.K, nil}, vExpected{iterValueOp, nil, e.V})
				it.Next()
			}
			zz.Assert("C16.trace.iterator-ends", !it.Valid())
			it.Close()
		case 5: // a bounded descending range through the traced store
			bounds := [][]byte{nil, []byte("ka"), []byte("kc")}
			start, end := bounds[zz.Choice("rstart", 3)], bounds[zz.Choice("rend", 3)]
			it := st.ReverseIterator(start, end)
			exp := ref.Sorted(start, end)
			for j := len(exp) - 1; j >= 0; j-- {
				e := exp[j]
				zz.Assert("C16.trace.reverse-iterator-transparent", it.Valid() && bytes.Equal(it.Key(), e.K) && bytes.Equal(it.Value(), e.V))
				want = append(want, vExpected{iterKeyOp, e.K, nil}, vExpected{iterValueOp, nil, e.V})
				it.Next()
			}
			zz.Assert("C16.trace.reverse-iterator-ends", !it.Valid())
			it.Close()
		}
	}
	zz.Assert("C16.trace.parent-content", vstore.SameContent(parent, ref))
	// decode the trace: chunks alternate JSON line / "\n"
	var lines [][]byte
	for _, c := range rec.chunks {
		if !(len(c) == 1 && c[0] == '\n') {
			lines = append(lines, c)
		}
	}
	zz.Assert("C16.trace.one-line-per-traced-operation", len(lines) == len(want) && len(rec.chunks) == 2*len(want))
	for i := range lines {
		if i >= len(want) {
			break
		}
		var op traceOperation
		err := json.Unmarshal(lines[i], &op)
		zz.Assert("C16.trace.line-in-call-order", err == nil && op.Operation == want[i].op &&
			op.Key == base64.StdEncoding.EncodeToString(want[i].key) && op.Value == base64.StdEncoding.EncodeToString(want[i].val))
	}
	zz.Reach("C16.trace")
}
