package baseapp

import (
	"bytes"

	abci "github.com/tendermint/tendermint/abci/types"
	"github.com/tendermint/tendermint/libs/log"

	"github.com/pokt-network/posmint/store/rootmulti"
	zz "github.com/pokt-network/posmint/zzverif"
)

// VerifC14_BaseappStoreQuery: /store queries through BaseApp.Query: a missing height defaults to the last committed
// block, no proof is served at height <= 1, the reported height is the answered height, and the value is the one
// committed at that height (nothing for pruned / future heights).
func VerifC14_BaseappStoreQuery() {
	commits := int64(2 + zz.Choice("commits", 3))
	keepRecent := zz.Int64("keep_recent", 0, 4)
	rs := rootmulti.VNewCommittedWorld(commits, keepRecent, 0)
	app := &BaseApp{logger: log.NewNopLogger(), name: "verif", cms: rs, router: NewRouter(), queryRouter: NewQueryRouter()}
	h := zz.Int64("height", 0, 6)
	prove := zz.Choice("prove", 2) == 1
	res := app.Query(abci.RequestQuery{Path: "/store/alpha/key", Data: []byte("k"), Height: h, Prove: prove})
	answered := h
	if h == 0 {
		answered = commits
	}
	if answered <= 1 && prove {
		zz.Assert("C14.baseapp.no-proof-at-height-le-1", res.Code != 0 && res.Value == nil && res.Proof == nil)
		zz.Reach("C14.baseapp.query.refused")
		return
	}
	retained := answered >= 1 && answered <= commits && answered >= commits-keepRecent
	if retained {
		zz.Assert("C14.baseapp.value-of-answered-height", bytes.Equal(res.Value, []byte{0, byte(answered)}) && res.Height == answered)
		if prove {
			zz.Assert("C14.baseapp.proof-present", res.Proof != nil && len(res.Proof.Ops) == 2)
		}
	} else {
		zz.Assert("C14.baseapp.pruned-or-future-returns-nothing", res.Value == nil && (res.Proof == nil || len(res.Proof.Ops) == 0))
	}
	zz.Reach("C14.baseapp.query")
}
