package baseapp

import (
	"github.com/tendermint/tendermint/libs/log"
	"github.com/tendermint/tendermint/node"
	abci "github.com/tendermint/tendermint/abci/types"
	dbm "github.com/tendermint/tm-db"

	"github.com/pokt-network/posmint/store/rootmulti"
	stypes "github.com/pokt-network/posmint/store/types"
	sdk "github.com/pokt-network/posmint/types"
	zz "github.com/pokt-network/posmint/zzverif"
	"github.com/pokt-network/posmint/zzverif/vms"
	"github.com/pokt-network/posmint/zzverif/vstore"
)

// ---- a generic transaction / message / ante handler / message handler with symbolic behaviour ----

type vMsg struct {
	basicOK    bool
	basicPanic bool
	route      string
}

func (m vMsg) Route() string { return m.route }
func (m vMsg) Type() string  { return "vmsg" }
func (m vMsg) ValidateBasic() sdk.Error {
	if m.basicPanic {
		var p *vMsg
		_ = p.route // nil dereference, as a decoded message with a missing field would cause
	}
	if !m.basicOK {
		return sdk.ErrUnknownRequest("invalid")
	}
	return nil
}
func (m vMsg) GetSignBytes() []byte  { return []byte("sb") }
func (m vMsg) GetSigner() sdk.Address { return sdk.Address([]byte("signer______________")) }
func (m vMsg) GetFee() sdk.Int        { return sdk.NewInt(1) }

type vTx struct{ msg sdk.Msg }

func (t vTx) GetMsg() sdk.Msg         { return t.msg }
func (t vTx) ValidateBasic() sdk.Error { return nil }

type vApp struct {
	app        *BaseApp
	keyA, keyB *sdk.KVStoreKey
	leafA      vms.CLeaf
	leafB      vms.CLeaf
}

func vNewApp() *vApp {
	v := &vApp{keyA: sdk.NewKVStoreKey("storeA"), keyB: sdk.NewKVStoreKey("storeB")}
	v.leafA, v.leafB = vms.NewCLeaf(stypes.StoreTypeIAVL), vms.NewCLeaf(stypes.StoreTypeIAVL)
	db := dbm.NewMemDB()
	rs := rootmulti.VNewStoreWith(db, []stypes.StoreKey{v.keyA, v.keyB}, []stypes.CommitStore{v.leafA, v.leafB})
	v.leafA.Set([]byte("balance"), []byte{100})
	v.leafB.Set([]byte("x"), []byte{1})
	app := &BaseApp{logger: log.NewNopLogger(), name: "verif", db: db, cms: rs, router: NewRouter(), queryRouter: NewQueryRouter()}
	app.setCheckState(abci.Header{Height: 3})
	app.setDeliverState(abci.Header{Height: 3})
	// as BeginBlock does
	app.deliverState.ctx = app.deliverState.ctx.WithBlockGasMeter(sdk.NewInfiniteGasMeter())
	v.app = app
	return v
}

func (v *vApp) snapshot() (a, b *vstore.Mem) { return v.leafA.Mem.Clone(), v.leafB.Mem.Clone() }

// VerifC11_RunTx: one transaction through runTx in every mode with an ante handler and a message handler whose
// behaviour is symbolic (pays a fee / aborts / panics; validates-then-writes / fails without writing / panics without
// writing): rejected transactions and every CheckTx / Simulate leave the root stores untouched (fee excepted for a
// delivered transaction that passed the ante handler); the process keeps running.
func VerifC11_RunTx() {
	v := vNewApp()
	mode := []runTxMode{runTxModeCheck, runTxModeSimulate, runTxModeDeliver}[zz.Choice("mode", 3)]
	vb := zz.Choice("validate_basic", 3) // 0 error, 1 ok, 2 panics
	basicOK := vb == 1
	anteKind := zz.Choice("ante", 3)       // 0 pays fee and continues, 1 writes then aborts, 2 writes then panics
	handlerKind := zz.Choice("handler", 4) // 0 ok (writes), 1 error before any write, 2 panic before any write, 3 unknown route
	fee := zz.Byte("fee")
	hval := zz.Byte("handler_value")
	v.app.anteHandler = func(ctx sdk.Ctx, tx sdk.Tx, txBz []byte, n *node.Node, simulate bool) (sdk.Ctx, sdk.Result, bool) {
		st := ctx.KVStore(v.keyA)
		st.Set([]byte("balance"), []byte{100 - fee%50})
		st.Set([]byte("collector"), []byte{fee % 50})
		switch anteKind {
		case 1:
			return ctx, sdk.ErrUnauthorized("no").Result(), true
		case 2:
			panic("ante handler panics")
		}
		return ctx, sdk.Result{}, false
	}
	v.app.router.AddRoute("vroute", func(ctx sdk.Ctx, msg sdk.Msg) sdk.Result {
		switch handlerKind {
		case 1:
			return sdk.ErrInternal("handler refuses").Result()
		case 2:
			panic("handler panics")
		}
		ctx.KVStore(v.keyB).Set([]byte("y"), []byte{hval})
		return sdk.Result{}
	})
	route := "vroute"
	if handlerKind == 3 {
		route = "nowhere"
	}
	tx := vTx{msg: vMsg{basicOK: basicOK, basicPanic: vb == 2, route: route}}
	preA, preB := v.snapshot()
	crashed := false
	var res sdk.Result
	func() {
		defer func() {
			if r := recover(); r != nil {
				crashed = true
			}
		}()
		res = v.app.runTx(mode, []byte("txbytes"), tx)
	}()
	zz.Assert("C11.runtx.process-keeps-running", !crashed)
	passedAnte := basicOK && anteKind == 0
	accepted := passedAnte && handlerKind == 0
	if !crashed {
		zz.Assert("C11.runtx.result-code-matches", res.IsOK() == accepted || (mode == runTxModeCheck && passedAnte && handlerKind != 3))
	}
	unchangedA := vstore.SameContent(v.leafA.Mem, preA)
	unchangedB := vstore.SameContent(v.leafB.Mem, preB)
	switch {
	case mode != runTxModeDeliver:
		zz.Assert("C11.runtx.check-and-simulate-never-change-state", unchangedA && unchangedB)
	case !passedAnte:
		zz.Assert("C11.runtx.rejected-before-or-by-ante-leaves-no-trace", unchangedA && unchangedB)
	case !accepted:
		zz.Assert("C11.runtx.rejected-by-handler-pays-fee-only", unchangedB && v.leafA.Mem.GetS([]byte("collector"), []byte{fee % 50}))
	default:
		zz.Assert("C11.runtx.accepted-writes", v.leafB.Mem.GetS([]byte("y"), []byte{hval}) && v.leafA.Mem.GetS([]byte("collector"), []byte{fee % 50}))
	}
	// a later transaction in the block is unaffected: the next deliver runs normally
	if mode == runTxModeDeliver && !crashed {
		anteKind, handlerKind = 0, 0
		res2 := v.app.runTx(runTxModeDeliver, []byte("txbytes2"), vTx{msg: vMsg{basicOK: true, route: "vroute"}})
		zz.Assert("C11.runtx.later-tx-unaffected", res2.IsOK())
	}
	zz.Reach("C11.runtx")
}
