package baseapp

import (
	"bytes"

	abci "github.com/tendermint/tendermint/abci/types"
	"github.com/tendermint/tendermint/libs/log"
	dbm "github.com/tendermint/tm-db"

	sdk "github.com/pokt-network/posmint/types"
	zz "github.com/pokt-network/posmint/zzverif"
)

// a transaction that sets key := value in the data store (wire form: "k=v")
type vKVMsg struct{ k, v []byte }

func (m vKVMsg) Route() string            { return "kv" }
func (m vKVMsg) Type() string             { return "kv" }
func (m vKVMsg) ValidateBasic() sdk.Error { return nil }
func (m vKVMsg) GetSignBytes() []byte     { return nil }
func (m vKVMsg) GetSigner() sdk.Address   { return sdk.Address([]byte("signer______________")) }
func (m vKVMsg) GetFee() sdk.Int          { return sdk.NewInt(0) }

type vRealApp struct {
	app        *BaseApp
	main, data *sdk.KVStoreKey
}

// vOpenApp builds a BaseApp over db the way an application's constructor does (NewBaseApp, mount, load latest).
func vOpenApp(db dbm.DB) *vRealApp {
	v := &vRealApp{main: sdk.NewKVStoreKey("main"), data: sdk.NewKVStoreKey("data")}
	dec := func(bz []byte) (sdk.Tx, sdk.Error) {
		parts := bytes.SplitN(bz, []byte("="), 2)
		if len(parts) != 2 {
			return nil, sdk.ErrTxDecode("bad tx")
		}
		return vTx{msg: vKVMsg{k: parts[0], v: parts[1]}}, nil
	}
	app := NewBaseApp("verif", log.NewNopLogger(), db, dec)
	app.MountStores(v.main, v.data)
	app.Router().AddRoute("kv", func(ctx sdk.Ctx, msg sdk.Msg) sdk.Result {
		m := msg.(vKVMsg)
		ctx.KVStore(v.data).Set(m.k, m.v)
		return sdk.Result{}
	})
	if err := app.LoadLatestVersion(v.main); err != nil {
		panic(err)
	}
	v.app = app
	return v
}

func (v *vRealApp) block(h int64, txs [][]byte) []byte {
	v.app.BeginBlock(abci.RequestBeginBlock{Header: abci.Header{Height: h, ChainID: "c"}})
	for _, tx := range txs {
		v.app.DeliverTx(abci.RequestDeliverTx{Tx: tx})
	}
	v.app.EndBlock(abci.RequestEndBlock{Height: h})
	return v.app.Commit().Data
}

// VerifC01_AppRestart: two BaseApp replicas over their own databases run InitChain (with consensus parameters) and the
// same three blocks of transactions; one of them is stopped after a symbolic height and rebuilt from its database
// (NewBaseApp + mount + LoadLatestVersion, as a restart does): every block's app hash, Info() after the restart and the
// committed data are identical to the uninterrupted replica's.
func VerifC01_AppRestart() {
	dbA, dbB := dbm.NewMemDB(), dbm.NewMemDB()
	a, b := vOpenApp(dbA), vOpenApp(dbB)
	withParams := zz.Choice("consensus_params", 2) == 1
	var cp *abci.ConsensusParams
	if withParams {
		cp = &abci.ConsensusParams{Block: &abci.BlockParams{MaxBytes: 200000, MaxGas: -1}}
	}
	a.app.InitChain(abci.RequestInitChain{ChainId: "c", ConsensusParams: cp})
	b.app.InitChain(abci.RequestInitChain{ChainId: "c", ConsensusParams: cp})
	restartAfter := int64(zz.Choice("restart_after", 4)) // 0 = never
	txs := [][][]byte{
		{[]byte("a=1"), []byte("b=2")},
		{[]byte("a=3")},
		{},
	}
	if zz.Choice("block3_has_tx", 2) == 1 {
		txs[2] = [][]byte{[]byte("c=4"), []byte("garbage")}
	}
	for h := int64(1); h <= 3; h++ {
		ha, hb := a.block(h, txs[h-1]), b.block(h, txs[h-1])
		zz.Assert("C01.app.same-app-hash", bytes.Equal(ha, hb) && len(ha) > 0)
		if h == restartAfter {
			b = vOpenApp(dbB)
			ia, ib := a.app.Info(abci.RequestInfo{}), b.app.Info(abci.RequestInfo{})
			zz.Assert("C01.app.restart.info-unchanged", ib.LastBlockHeight == h && ia.LastBlockHeight == h && bytes.Equal(ia.LastBlockAppHash, ib.LastBlockAppHash) && bytes.Equal(ib.LastBlockAppHash, ha))
		}
	}
	qa := a.app.Query(abci.RequestQuery{Path: "/store/data/key", Data: []byte("a"), Height: 3})
	qb := b.app.Query(abci.RequestQuery{Path: "/store/data/key", Data: []byte("a"), Height: 3})
	zz.Assert("C01.app.same-committed-data", bytes.Equal(qa.Value, qb.Value) && bytes.Equal(qa.Value, []byte("3")))
	zz.Reach("C01.app.end")
}
