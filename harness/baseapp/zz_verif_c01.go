package baseapp

import (
	"bytes"

	"github.com/tendermint/tendermint/node"

	abci "github.com/tendermint/tendermint/abci/types"
	"github.com/tendermint/tendermint/libs/log"
	dbm "github.com/tendermint/tm-db"

	stypes "github.com/pokt-network/posmint/store/types"
	sdk "github.com/pokt-network/posmint/types"
	zz "github.com/pokt-network/posmint/zzverif"
)

// a transaction that sets key := value in the data store (wire form: "k=v")
type vKVMsg struct{ k, v []byte }

func (m vKVMsg) Route() string            { return "kv" }
func (m vKVMsg) Type() string             { return "kv" }
func (m vKVMsg) ValidateBasic() sdk.Error { return nil }
func (m vKVMsg) GetSignBytes() []byte     { return nil }
func (m vKVMsg) GetSigner() sdk.Address   { return sdk.Address([]byte("signer______________")) }
func (m vKVMsg) GetFee() sdk.Int          { return sdk.NewInt(0) }

type vRealApp struct {
	app        *BaseApp
	main, data *sdk.KVStoreKey
}

// vOpenApp builds a BaseApp over db the way an application's constructor does (NewBaseApp, mount, load latest).
func vOpenApp(db dbm.DB) *vRealApp {
	v := &vRealApp{main: sdk.NewKVStoreKey("main"), data: sdk.NewKVStoreKey("data")}
	dec := func(bz []byte) (sdk.Tx, sdk.Error) {
		parts := bytes.SplitN(bz, []byte("="), 2)
		if len(parts) != 2 {
			return nil, sdk.ErrTxDecode("bad tx")
		}
		return vTx{msg: vKVMsg{k: parts[0], v: parts[1]}}, nil
	}
	app := NewBaseApp("verif", log.NewNopLogger(), db, dec)
	app.MountStores(v.main, v.data)
	app.Router().AddRoute("kv", func(ctx sdk.Ctx, msg sdk.Msg) sdk.Result {
		m := msg.(vKVMsg)
		ctx.KVStore(v.data).Set(m.k, m.v)
		return sdk.Result{}
	})
	// an ante handler that, like the real fee deduction, writes to state for every transaction it lets through
	app.SetAnteHandler(func(ctx sdk.Ctx, tx sdk.Tx, txBz []byte, n *node.Node, simulate bool) (sdk.Ctx, sdk.Result, bool) {
		st := ctx.KVStore(v.data)
		cnt := st.Get([]byte("fees-collected"))
		st.Set([]byte("fees-collected"), append(cnt, 1))
		return ctx, sdk.Result{}, false
	})
	if err := app.LoadLatestVersion(v.main); err != nil {
		panic(err)
	}
	v.app = app
	return v
}

func (v *vRealApp) block(h int64, txs [][]byte) []byte {
	v.app.BeginBlock(abci.RequestBeginBlock{Header: abci.Header{Height: h, ChainID: "c"}})
	for _, tx := range txs {
		v.app.DeliverTx(abci.RequestDeliverTx{Tx: tx})
	}
	v.app.EndBlock(abci.RequestEndBlock{Height: h})
	return v.app.Commit().Data
}

// VerifC01_AppRestart: two BaseApp replicas over their own databases run InitChain (with consensus parameters) and the
// same three blocks of transactions; one of them is stopped after a symbolic height and rebuilt from its database
// (NewBaseApp + mount + LoadLatestVersion, as a restart does): every block's app hash, Info() after the restart and the
// committed data are identical to the uninterrupted replica's.
func VerifC01_AppRestart() {
	dbA, dbB := dbm.NewMemDB(), dbm.NewMemDB()
	a, b := vOpenApp(dbA), vOpenApp(dbB)
	withParams := zz.Choice("consensus_params", 2) == 1
	var cp *abci.ConsensusParams
	if withParams {
		cp = &abci.ConsensusParams{Block: &abci.BlockParams{MaxBytes: 200000, MaxGas: -1}}
	}
	a.app.InitChain(abci.RequestInitChain{ChainId: "c", ConsensusParams: cp})
	b.app.InitChain(abci.RequestInitChain{ChainId: "c", ConsensusParams: cp})
	restartAfter := int64(zz.Choice("restart_after", 4)) // 0 = never
	txs := [][][]byte{
		{[]byte("a=1"), []byte("b=2")},
		{[]byte("a=3")},
		{},
	}
	if zz.Choice("block3_has_tx", 2) == 1 {
		txs[2] = [][]byte{[]byte("c=4"), []byte("garbage")}
	}
	for h := int64(1); h <= 3; h++ {
		ha, hb := a.block(h, txs[h-1]), b.block(h, txs[h-1])
		zz.Assert("C01.app.same-app-hash", bytes.Equal(ha, hb) && len(ha) > 0)
		if h == restartAfter {
			b = vOpenApp(dbB)
			ia, ib := a.app.Info(abci.RequestInfo{}), b.app.Info(abci.RequestInfo{})
			zz.Assert("C01.app.restart.info-unchanged", ib.LastBlockHeight == h && ia.LastBlockHeight == h && bytes.Equal(ia.LastBlockAppHash, ib.LastBlockAppHash) && bytes.Equal(ib.LastBlockAppHash, ha))
		}
	}
	qa := a.app.Query(abci.RequestQuery{Path: "/store/data/key", Data: []byte("a"), Height: 3})
	qb := b.app.Query(abci.RequestQuery{Path: "/store/data/key", Data: []byte("a"), Height: 3})
	zz.Assert("C01.app.same-committed-data", bytes.Equal(qa.Value, qb.Value) && bytes.Equal(qa.Value, []byte("3")))
	zz.Reach("C01.app.end")
}

// VerifC11_ReadOnlyCallsOnRealApp: CheckTx, Query(app/simulate), Query(store/...), Query(custom/...) - at a symbolic
// position of a block (before BeginBlock, between the transactions, after EndBlock) and at symbolic heights - never
// change state: the replica that serves them commits the same app hashes as one that does not, and a later
// transaction sees what it would have seen.
func VerifC11_ReadOnlyCallsOnRealApp() { vReadOnlyCalls("C11.readonly") }

// VerifC01_TrafficIndependence: the same, read as determinism: two replicas executing the same blocks commit the same
// app hashes whatever CheckTx / Simulate / Query traffic each of them serves in between.
func VerifC01_TrafficIndependence() { vReadOnlyCalls("C01.traffic") }

func vReadOnlyCalls(p string) {
	a, b := vOpenApp(dbm.NewMemDB()), vOpenApp(dbm.NewMemDB())
	for _, v := range []*vRealApp{a, b} {
		v := v
		v.app.QueryRouter().AddRoute("kv", func(ctx sdk.Ctx, path []string, req abci.RequestQuery) ([]byte, sdk.Error) {
			return ctx.KVStore(v.data).Get(req.Data), nil
		})
		v.app.InitChain(abci.RequestInitChain{ChainId: "c"})
	}
	readonly := func(v *vRealApp, latest int64) {
		switch zz.Choice("call", 5) {
		case 0:
			v.app.CheckTx(abci.RequestCheckTx{Tx: []byte("a=9")})
		case 1:
			v.app.Query(abci.RequestQuery{Path: "/app/simulate", Data: []byte("a=8")})
		case 2:
			v.app.Query(abci.RequestQuery{Path: "/store/data/key", Data: []byte("a"), Height: zz.Int64("qheight", 0, 3), Prove: zz.Bool("prove")})
		case 3:
			v.app.Query(abci.RequestQuery{Path: "/custom/kv/get", Data: []byte("a"), Height: zz.Int64("qheight", 0, 3)})
		case 4:
			v.app.Query(abci.RequestQuery{Path: "/app/simulate", Data: []byte("garbage")})
		}
		_ = latest
	}
	when := zz.Choice("when", 4)
	atHeight := int64(1 + zz.Choice("at_height", 2))
	txs := [][][]byte{{[]byte("a=1"), []byte("b=2")}, {[]byte("a=3"), []byte("c=4")}}
	for h := int64(1); h <= 2; h++ {
		// replica b: plain block
		hb := b.block(h, txs[h-1])
		// replica a: the same block with one read-only call somewhere
		hit := h == atHeight
		if hit && when == 0 {
			readonly(a, h-1)
		}
		a.app.BeginBlock(abci.RequestBeginBlock{Header: abci.Header{Height: h, ChainID: "c"}})
		a.app.DeliverTx(abci.RequestDeliverTx{Tx: txs[h-1][0]})
		if hit && when == 1 {
			readonly(a, h-1)
		}
		a.app.DeliverTx(abci.RequestDeliverTx{Tx: txs[h-1][1]})
		if hit && when == 2 {
			readonly(a, h-1)
		}
		a.app.EndBlock(abci.RequestEndBlock{Height: h})
		if hit && when == 3 {
			readonly(a, h-1)
		}
		ha := a.app.Commit().Data
		zz.Assert(p+".same-app-hash-as-undisturbed-replica", bytes.Equal(ha, hb))
	}
	qa := a.app.Query(abci.RequestQuery{Path: "/store/data/key", Data: []byte("a"), Height: 2})
	zz.Assert(p+".committed-value-is-the-delivered-one", bytes.Equal(qa.Value, []byte("3")))
	zz.Reach(p + ".end")
}

// VerifC12_AppLoadVersion: an application rebuilt over the same database and opened at an earlier committed height
// (BaseApp.LoadVersion: rollback, export at height) reports that height and its app hash and serves its content;
// opened at the latest height it reports the latest.
func VerifC12_AppLoadVersion() {
	db := dbm.NewMemDB()
	a := vOpenApp(db)
	a.app.cms.SetPruning(stypes.PruneNothing) // every height is retained
	a.app.InitChain(abci.RequestInitChain{ChainId: "c"})
	txs := [][][]byte{{[]byte("a=1")}, {[]byte("a=2"), []byte("b=1")}, {[]byte("a=3")}}
	var hashes [4][]byte
	for h := int64(1); h <= 3; h++ {
		hashes[h] = a.block(h, txs[h-1])
	}
	target := int64(1 + zz.Choice("target", 3))
	v := &vRealApp{main: sdk.NewKVStoreKey("main"), data: sdk.NewKVStoreKey("data")}
	app := NewBaseApp("verif", log.NewNopLogger(), db, nil)
	app.cms.SetPruning(stypes.PruneNothing)
	app.MountStores(v.main, v.data)
	err := app.LoadVersion(target, v.main)
	zz.Assert("C12.app.loads-a-committed-height", err == nil)
	info := app.Info(abci.RequestInfo{})
	zz.Assert("C12.app.reports-the-loaded-height-and-hash", info.LastBlockHeight == target && bytes.Equal(info.LastBlockAppHash, hashes[target]))
	got := app.cms.GetKVStore(v.data).Get([]byte("a"))
	zz.Assert("C12.app.serves-the-content-of-that-height", bytes.Equal(got, []byte{byte('0' + target)}))
	zz.Reach("C12.app.loadversion.end")
}
