package pos

import (
	"bytes"

	sdk "github.com/pokt-network/posmint/types"
	"github.com/pokt-network/posmint/x/pos/keeper"
	"github.com/pokt-network/posmint/x/pos/types"
	zz "github.com/pokt-network/posmint/zzverif"
)

// VerifC11_PosHandlers: every pos message with symbolic fields, from every lifecycle stage: a handler that returns an
// error (or panics) has written nothing to any store (the handlers validate before their first write).
func VerifC11_PosHandlers() {
	e, _, _ := vPrepare(6)
	e.Fund(e.Addrs[2], sdk.NewInt(3000000))
	if zz.Choice("non_default_stake_denom", 2) == 1 {
		// governance made another denomination the staking token: the accounts hold none of it
		p := e.K.GetParams(e.Ctx)
		p.StakeDenom = "ustake"
		e.K.SetParams(e.Ctx, p)
	}
	var msg sdk.Msg
	switch zz.Choice("msg", 5) {
	case 0:
		msg = types.MsgStake{PubKey: e.Pubs[0], Value: keeper.VSymInt("amt", 0, 1<<51)}
	case 1:
		msg = types.MsgStake{PubKey: e.Pubs[2], Value: keeper.VSymInt("amt", 0, 1<<51)}
	case 2:
		who := []sdk.Address{e.Addrs[0], e.Addrs[2], sdk.Address(bytes.Repeat([]byte{9}, 20))}[zz.Choice("who", 3)]
		msg = types.MsgBeginUnstake{Address: who}
	case 3:
		who := []sdk.Address{e.Addrs[0], e.Addrs[2], sdk.Address(bytes.Repeat([]byte{9}, 20))}[zz.Choice("who", 3)]
		msg = types.MsgUnjail{ValidatorAddr: who}
	case 4:
		// to another account, or to the address of a module account that has not been created yet
		to := []sdk.Address{e.Addrs[1], e.AK.GetModuleAddress(types.ModuleName), e.AK.GetModuleAddress("fee_collector")}[zz.Choice("to", 3)]
		msg = types.MsgSend{FromAddress: e.Addrs[2], ToAddress: to, Amount: keeper.VSymInt("amt", 1, 1<<51)}
	}
	if msg.ValidateBasic() != nil {
		zz.Reach("C11.pos.rejected-by-validate-basic")
		return
	}
	snap := e.MS.Snapshot()
	panicked := false
	var res sdk.Result
	func() {
		defer func() {
			if r := recover(); r != nil {
				panicked = true
			}
		}()
		res = NewHandler(e.K)(e.Ctx, msg)
	}()
	if panicked || !res.IsOK() {
		zz.Assert("C11.pos.failed-handler-wrote-nothing", e.MS.Same(snap))
	}
	zz.Reach("C11.pos.handlers")
}
