package pos

import (
	"math/big"

	sdk "github.com/pokt-network/posmint/types"
	"github.com/pokt-network/posmint/x/pos/keeper"
	"github.com/pokt-network/posmint/x/pos/types"
	zz "github.com/pokt-network/posmint/zzverif"
)

// vHandlerStake: MsgStake through the real handler for a new validator and for a re-stake:
// exactly the staked amount leaves the account, enters the pool and is recorded as stake.
func vHandlerStake(p string) {
	e := keeper.VNewEnv(2)
	// amounts up to 2^90: a stake whose consensus power no longer fits an int64 (stake / 10^6 > 2^63) makes the power-index
	// key panic inside the handler; baseapp recovers the panic, and this fork does not roll a handler's writes back
	hi := new(big.Int).Lsh(big.NewInt(1), 90)
	bal := sdk.NewIntFromBigInt(zz.Big("bal", big.NewInt(0), hi))
	e.Fund(e.Addrs[0], bal)
	amt := sdk.NewIntFromBigInt(zz.Big("amt", big.NewInt(0), hi))
	h := NewHandler(e.K)
	preBal, prePool, preSupply := e.Bal(e.Addrs[0]), e.Pool(), e.Supply()
	var res sdk.Result
	panicked := false
	func() {
		defer func() {
			if r := recover(); r != nil {
				panicked = true
			}
		}()
		res = h(e.Ctx, types.MsgStake{PubKey: e.Pubs[0], Value: amt})
	}()
	v, found := e.Val(0)
	if panicked {
		zz.Reach(p + ".handler.stake.panicked")
	} else if res.IsOK() {
		zz.Assert(p+".handler.stake.preconditions", amt.GTE(sdk.NewInt(e.K.MinimumStake(e.Ctx))) && amt.LTE(preBal))
		zz.Assert(p+".handler.stake.records-exact-amount", found && v.StakedTokens.Equal(amt) && v.Status == sdk.Staked)
		zz.Assert(p+".handler.stake.moves-exact-amount", preBal.Sub(e.Bal(e.Addrs[0])).Equal(amt) && e.Pool().Sub(prePool).Equal(amt))
	} else {
		zz.Assert(p+".handler.stake.rejected-changes-nothing", !found && e.Bal(e.Addrs[0]).Equal(preBal) && e.Pool().Equal(prePool))
	}
	zz.Assert(p+".handler.stake.supply-unchanged", e.Supply().Equal(preSupply) && e.SumBalances().Equal(preSupply))
	zz.Assert(p+".handler.stake.pool==sum-of-stake", e.Pool().Equal(e.SumStake()))
	zz.Reach(p + ".handler.stake")
}

func VerifC04_HandlerStake() { vHandlerStake("C04") }
func VerifC02_HandlerStake() { vHandlerStake("C02") }
