package pos

import (
	sdk "github.com/pokt-network/posmint/types"
	"github.com/pokt-network/posmint/x/pos/keeper"
	"github.com/pokt-network/posmint/x/pos/types"
	zz "github.com/pokt-network/posmint/zzverif"
)

// vHandlerStake: MsgStake through the real handler for a new validator and for a re-stake:
// exactly the staked amount leaves the account, enters the pool and is recorded as stake.
func vHandlerStake(p string) {
	e := keeper.VNewEnv(2)
	bal := keeper.VSymInt("bal", 0, 1<<60)
	e.Fund(e.Addrs[0], bal)
	amt := keeper.VSymInt("amt", 0, 1<<60)
	h := NewHandler(e.K)
	preBal, prePool, preSupply := e.Bal(e.Addrs[0]), e.Pool(), e.Supply()
	res := h(e.Ctx, types.MsgStake{PubKey: e.Pubs[0], Value: amt})
	v, found := e.Val(0)
	if res.IsOK() {
		zz.Assert(p+".handler.stake.preconditions", amt.GTE(sdk.NewInt(e.K.MinimumStake(e.Ctx))) && amt.LTE(preBal))
		zz.Assert(p+".handler.stake.records-exact-amount", found && v.StakedTokens.Equal(amt) && v.Status == sdk.Staked)
		zz.Assert(p+".handler.stake.moves-exact-amount", preBal.Sub(e.Bal(e.Addrs[0])).Equal(amt) && e.Pool().Sub(prePool).Equal(amt))
	} else {
		zz.Assert(p+".handler.stake.rejected-changes-nothing", !found && e.Bal(e.Addrs[0]).Equal(preBal) && e.Pool().Equal(prePool))
	}
	zz.Assert(p+".handler.stake.supply-unchanged", e.Supply().Equal(preSupply) && e.SumBalances().Equal(preSupply))
	zz.Assert(p+".handler.stake.pool==sum-of-stake", e.Pool().Equal(e.SumStake()))
	zz.Reach(p + ".handler.stake")
}

func VerifC04_HandlerStake() { vHandlerStake("C04") }
func VerifC02_HandlerStake() { vHandlerStake("C02") }
