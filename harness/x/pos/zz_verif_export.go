package pos

import (
	"time"

	sdk "github.com/pokt-network/posmint/types"
	"github.com/pokt-network/posmint/x/pos/keeper"
	"github.com/pokt-network/posmint/x/pos/types"
	zz "github.com/pokt-network/posmint/zzverif"
)

// vExportImport: chain A runs a short history (two validators with different stakes and different missed-vote
// patterns, one of them possibly jailed for downtime / directly, the other possibly unstaking), its pos state is
// exported (ExportGenesis; validators travel in their own JSON form, as the genesis file carries them) and chain B is
// started from the export (InitGenesis): B's pos state is A's - validators with their jailed flag and status, signing
// infos, every slot of every missed-block window, counters == windows, the staked pool backs the recorded stake, and
// the first validator-set update of B gives exactly A's powers.
func vExportImport(p string) {
	a := keeper.VNewEnv(3)
	for i := 0; i < 3; i++ {
		a.Fund(a.Addrs[i], sdk.NewInt(1<<41))
	}
	pr := a.K.GetParams(a.Ctx)
	pr.SignedBlocksWindow = 4
	pr.MinSignedPerWindow = sdk.NewDecWithPrec(5, 1)
	a.K.SetParams(a.Ctx, pr)
	h := NewHandler(a.K)
	h(a.Ctx, types.MsgStake{PubKey: a.Pubs[0], Value: sdk.NewInt(5000000)})
	h(a.Ctx, types.MsgStake{PubKey: a.Pubs[1], Value: sdk.NewInt(3000000)})
	keeper.EndBlocker(a.Ctx, a.K)
	// votes: validator 0 and 1 miss different blocks
	for b := 0; b < 3; b++ {
		a.Advance(time.Second, 1)
		a.K.VHandleVote(a.Ctx, a, 0, 5, zz.Bool("v0_signed"))
		a.K.VHandleVote(a.Ctx, a, 1, 3, zz.Bool("v1_signed"))
	}
	switch zz.Choice("extra", 4) {
	case 1:
		if v, ok := a.Val(0); ok && !v.Jailed {
			a.K.JailValidator(a.Ctx, a.Addrs[0])
		}
	case 2:
		h(a.Ctx, types.MsgBeginUnstake{Address: a.Addrs[1]})
	case 3:
		if v, ok := a.Val(0); ok && !v.Jailed {
			a.K.JailValidator(a.Ctx, a.Addrs[0])
		}
		h(a.Ctx, types.MsgBeginUnstake{Address: a.Addrs[1]})
	}
	keeper.EndBlocker(a.Ctx, a.K)
	a.Advance(time.Second, 1)

	a.K.SetPreviousProposer(a.Ctx, a.Addrs[1]) // as every BeginBlock does
	gs := ExportGenesis(a.Ctx, a.K)
	// validators go through their own JSON form
	for i := range gs.Validators {
		bz, err := gs.Validators[i].MarshalJSON()
		if err != nil {
			panic(err)
		}
		var w types.Validator
		if err := w.UnmarshalJSON(bz); err != nil {
			panic(err)
		}
		gs.Validators[i] = w
	}
	b := keeper.VNewEnv(3)
	for i := 0; i < 3; i++ {
		b.Fund(b.Addrs[i], a.Bal(a.Addrs[i]))
	}
	b.Ctx = b.Ctx.WithBlockHeader(a.Ctx.BlockHeader())
	updates := InitGenesis(b.Ctx, b.K, b.AK, gs)
	b.Ctx = b.Ctx.WithBlockHeader(a.Ctx.BlockHeader())

	for i := 0; i < 2; i++ {
		va, fa := a.Val(i)
		vb, fb := b.Val(i)
		zz.Assert(p+".export.validator-record-survives", fa == fb && (!fa || (va.Jailed == vb.Jailed && va.Status == vb.Status && va.StakedTokens.Equal(vb.StakedTokens) && va.UnstakingCompletionTime.Equal(vb.UnstakingCompletionTime))))
		ia, oka := a.SigningInfo(i)
		ib, okb := b.SigningInfo(i)
		zz.Assert(p+".export.signing-info-survives", oka == okb && ia.MissedBlocksCounter == ib.MissedBlocksCounter && ia.IndexOffset == ib.IndexOffset && ia.StartHeight == ib.StartHeight && ia.Tombstoned == ib.Tombstoned && ia.JailedUntil.Equal(ib.JailedUntil))
		var missed int64
		for s := int64(0); s < 4; s++ {
			ma, mb := a.K.VMissedAt(a.Ctx, a, i, s), b.K.VMissedAt(b.Ctx, b, i, s)
			zz.Assert(p+".export.window-slot-survives", ma == mb)
			if mb {
				missed++
			}
		}
		zz.Assert(p+".export.counter-equals-window", !okb || ib.MissedBlocksCounter == missed)
	}
	zz.Assert(p+".export.pool-backs-recorded-stake", b.Pool().Equal(b.SumStake()))
	// an unstaking validator is still queued at its completion time, and paid out when that time comes
	for i := 0; i < 2; i++ {
		if vb, ok := b.Val(i); ok && vb.Status == sdk.Unstaking {
			zz.Assert(p+".export.unstaking-validator-still-queued", b.QueueHas(vb.UnstakingCompletionTime, b.Addrs[i]))
		}
	}
	// B's first update reproduces A's Tendermint set; afterwards jailed / unstaking validators have no power
	tm := &vTMSet{}
	zz.Assert(p+".export.first-batch-applicable", tm.apply(updates) == "")
	vEndBlock(b, tm, p+".export.next-block")
	if vb, ok := b.Val(1); ok && vb.Status == sdk.Unstaking {
		pre := b.Bal(b.Addrs[1])
		b.Advance(b.K.UnStakingTime(b.Ctx), 1)
		keeper.EndBlocker(b.Ctx, b.K)
		_, still := b.Val(1)
		zz.Assert(p+".export.unstaking-validator-released-at-maturity", !still && b.Bal(b.Addrs[1]).Sub(pre).Equal(vb.StakedTokens))
	}
	zz.Reach(p + ".export.end")
}

func VerifC04_ExportImport() { vExportImport("C04") }
func VerifC08_ExportImport() { vExportImport("C08") }
func VerifC09_ExportImport() { vExportImport("C09") }
func VerifC06_ExportImport() { vExportImport("C06") }
