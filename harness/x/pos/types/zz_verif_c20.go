package types

import (
	"bytes"
	"math/big"
	"time"

	"github.com/pokt-network/posmint/crypto"
	sdk "github.com/pokt-network/posmint/types"
	zz "github.com/pokt-network/posmint/zzverif"
)

func vAddr(name string) sdk.Address { return sdk.Address(zz.Bytes(name, sdk.AddrLen)) }

func vStake(name string) sdk.Int {
	hi := new(big.Int).Mul(big.NewInt(1000000), new(big.Int).Lsh(big.NewInt(1), 40))
	if !zz.Thorough() {
		hi = new(big.Int).Mul(big.NewInt(1000000), new(big.Int).Lsh(big.NewInt(1), 24))
	}
	return sdk.NewIntFromBigInt(zz.Big(name, big.NewInt(0), hi))
}

// VerifC20_PowerRankKey: the power-index key decodes back to the address it was built from, and two keys order
// exactly like (consensus power ascending, address descending) - so that reverse iteration yields power desc, address asc.
func VerifC20_PowerRankKey() {
	a1, a2 := vAddr("addr1"), vAddr("addr2")
	s1, s2 := vStake("stake1"), vStake("stake2")
	v1 := Validator{Address: a1, StakedTokens: s1, Status: sdk.Staked}
	v2 := Validator{Address: a2, StakedTokens: s2, Status: sdk.Staked}
	k1, k2 := KeyForValidatorInStakingSet(v1), KeyForValidatorInStakingSet(v2)
	zz.Assert("C20.rankkey.shape", len(k1) == 1+8+sdk.AddrLen && k1[0] == StakedValidatorsKey[0])
	zz.Assert("C20.rankkey.address-roundtrip", zz.BytesEqual(ParseValidatorPowerRankKey(k1), a1))
	zz.Assert("C20.rankkey.inputs-unchanged", len(a1) == sdk.AddrLen)
	p1, p2 := sdk.TokensToConsensusPower(s1), sdk.TokensToConsensusPower(s2)
	// expected order: power first, then inverted address (i.e. larger address sorts first)
	want := zz.Or(p1 < p2, zz.And(p1 == p2, zz.BytesLess(a2, a1)))
	zz.Assert("C20.rankkey.order-is-power-then-inverted-address", zz.BytesLess(k1, k2) == want)
	zz.Assert("C20.rankkey.equal-iff-same-power-and-address", zz.BytesEqual(k1, k2) == zz.And(p1 == p2, zz.BytesEqual(a1, a2)))
	zz.Reach("C20.rankkey")
}

// VerifC20_AddressKeys: address-keyed store keys round-trip and are injective; missed-block keys are injective in the index.
func VerifC20_AddressKeys() {
	a := vAddr("addr")
	zz.Assert("C20.keys.validator-key-roundtrip", zz.BytesEqual(AddressFromKey(KeyForValByAllVals(a)), a))
	zz.Assert("C20.keys.award-key-roundtrip", zz.BytesEqual(AddressFromKey(KeyForValidatorAward(a)), a))
	zz.Assert("C20.keys.burn-key-roundtrip", zz.BytesEqual(AddressFromKey(KeyForValidatorBurn(a)), a))
	zz.Assert("C20.keys.signing-info-roundtrip", zz.BytesEqual(GetValidatorSigningInfoAddress(GetValidatorSigningInfoKey(a)), a))
	zz.Assert("C20.keys.prevstate-roundtrip", zz.BytesEqual(AddressFromKey(KeyForValidatorPrevStateStateByPower(a)), a))
	i1 := zz.Int64("i1", 0, 1<<62)
	i2 := zz.Int64("i2", 0, 1<<62)
	m1, m2 := GetValMissedBlockKey(a, i1), GetValMissedBlockKey(a, i2)
	zz.Assert("C20.keys.missed-block-key-injective", zz.BytesEqual(m1, m2) == (i1 == i2))
	zz.Assert("C20.keys.missed-block-key-under-prefix", bytes.HasPrefix(m1, GetValMissedBlockPrefixKey(a)) && len(m1) == 1+sdk.AddrLen+8)
	// the shared package-level prefixes must not be modified by building keys (append on a 1-byte slice)
	zz.Assert("C20.keys.prefix-constants-intact", len(AllValidatorsKey) == 1 && AllValidatorsKey[0] == 0x21 && len(AwardValidatorKey) == 1 && AwardValidatorKey[0] == 0x51)
	zz.Reach("C20.keys")
}

// VerifC20_BigEndian: Uint64ToBigEndian preserves order (the lemma behind every sortable numeric key).
func VerifC20_BigEndian() {
	hi := uint64(1<<32 - 1)
	if zz.Thorough() {
		hi = 1<<48 - 1
	}
	x := zz.Uint64("x", 0, hi)
	y := zz.Uint64("y", 0, hi)
	bx, by := sdk.Uint64ToBigEndian(x), sdk.Uint64ToBigEndian(y)
	zz.Assert("C20.bigendian.order", zz.BytesLess(bx, by) == (x < y))
	zz.Assert("C20.bigendian.injective", zz.BytesEqual(bx, by) == (x == y))
	zz.Reach("C20.bigendian")
}

// VerifC20_ValidatorJSON: a validator record (any status, jailed or not, symbolic address bytes, stake and unstaking
// time) survives its custom JSON form (hex public key) unchanged.
func VerifC20_ValidatorJSON() {
	var pk crypto.Ed25519PublicKey
	pk[0], pk[31] = 7, 9
	v := Validator{
		Address:                 sdk.Address(zz.Bytes("addr", sdk.AddrLen)),
		PublicKey:               pk,
		Jailed:                  zz.Bool("jailed"),
		Status:                  []sdk.StakeStatus{sdk.Unstaked, sdk.Unstaking, sdk.Staked}[zz.Choice("status", 3)],
		StakedTokens:            sdk.NewInt(zz.Int64("tokens", 0, 1<<62)),
		UnstakingCompletionTime: time.Unix(zz.Int64("sec", 0, 4000000000), zz.Int64("nsec", 0, 999999999)).UTC(),
	}
	bz, err := v.MarshalJSON()
	zz.Assert("C20.validator-json.marshal-ok", err == nil)
	var w Validator
	err = w.UnmarshalJSON(bz)
	zz.Assert("C20.validator-json.unmarshal-ok", err == nil)
	zz.Assert("C20.validator-json.roundtrip", zz.BytesEqual(w.Address, v.Address) && w.Jailed == v.Jailed && w.Status == v.Status &&
		w.StakedTokens.Equal(v.StakedTokens) && w.UnstakingCompletionTime.Equal(v.UnstakingCompletionTime) &&
		w.PublicKey != nil && w.PublicKey.RawString() == v.PublicKey.RawString())
	zz.Reach("C20.validator-json.end")
}

// VerifC20_UnstakingQueueKey: the unstaking-queue key of a completion time decodes back to that instant, is the same
// for the same instant whatever location the time.Time value carries (UTC or a fixed zone), and two keys order like
// their instants (sortable time text modelled as an order-isomorphic encoding of the wall-clock reading).
func VerifC20_UnstakingQueueKey() {
	zones := []*time.Location{time.UTC, time.FixedZone("east", 5*3600), time.FixedZone("west", -(3*3600 + 1800))}
	s1, n1 := zz.Int64("sec1", 1000000, 4000000000), zz.Int64("nsec1", 0, 999999999)
	s2, n2 := zz.Int64("sec2", 1000000, 4000000000), zz.Int64("nsec2", 0, 999999999)
	t1 := time.Unix(s1, n1).In(zones[zz.Choice("zone1", 3)])
	t2 := time.Unix(s2, n2).In(zones[zz.Choice("zone2", 3)])
	k1, k2 := KeyForUnstakingValidators(t1), KeyForUnstakingValidators(t2)
	back, err := sdk.ParseTimeBytes(k1[len(UnstakingValidatorsKey):])
	zz.Assert("C20.queuekey.decodes-to-the-instant", err == nil && back.Equal(t1))
	same := zz.And(s1 == s2, n1 == n2)
	zz.Assert("C20.queuekey.same-instant-same-key", zz.BytesEqual(k1, k2) == same)
	before := zz.Or(s1 < s2, zz.And(s1 == s2, n1 < n2))
	zz.Assert("C20.queuekey.orders-like-time", zz.BytesLess(k1, k2) == before)
	zz.Reach("C20.queuekey.end")
}
