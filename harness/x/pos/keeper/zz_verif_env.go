package keeper

// Shared environment for the /verif harnesses of the pos module: the REAL auth keeper and pos keeper,
// real Subspace/params, real gaskv/prefix/cachekv wrappers, over the fake leaf stores of zzverif/vms.

import (
	"math/big"
	"time"

	abci "github.com/tendermint/tendermint/abci/types"
	"github.com/tendermint/tendermint/libs/log"

	"github.com/pokt-network/posmint/codec"
	"github.com/pokt-network/posmint/crypto"
	sdk "github.com/pokt-network/posmint/types"
	"github.com/pokt-network/posmint/x/auth"
	authkeeper "github.com/pokt-network/posmint/x/auth/keeper"
	authtypes "github.com/pokt-network/posmint/x/auth/types"
	"github.com/pokt-network/posmint/x/pos/types"
	zz "github.com/pokt-network/posmint/zzverif"
	"github.com/pokt-network/posmint/zzverif/vms"
)

type VEnv struct {
	Ctx    sdk.Context
	MS     *vms.MS
	K      Keeper
	AK     authkeeper.Keeper
	KeyAcc *sdk.KVStoreKey
	KeyPOS *sdk.KVStoreKey
	Pubs   []crypto.PublicKey
	Addrs  []sdk.Address
	Direct sdk.Int // coins users sent to the staked-pool address directly (C04 counts them apart from stake)
}

const VDenom = sdk.DefaultStakeDenom

var VT0 = time.Unix(1600000000, 0).UTC()

func vMakeCodec() *codec.Codec {
	cdc := codec.New()
	auth.RegisterCodec(cdc)
	types.RegisterCodec(cdc)
	sdk.RegisterCodec(cdc)
	codec.RegisterCrypto(cdc)
	return cdc
}

// VNewEnv builds keepers, default params, an empty supply and nAcc plain accounts (no balance yet).
func VNewEnv(nAcc int) *VEnv {
	e := &VEnv{Direct: sdk.ZeroInt()}
	e.KeyAcc = sdk.NewKVStoreKey(auth.StoreKey)
	e.KeyPOS = sdk.NewKVStoreKey(types.ModuleName)
	e.MS = vms.New(e.KeyAcc, e.KeyPOS, sdk.ParamsKey, sdk.ParamsTKey)
	e.Ctx = sdk.NewContext(e.MS, abci.Header{ChainID: "verif-chain", Height: 10, Time: VT0}, false, log.NewNopLogger())
	cdc := vMakeCodec()
	maccPerms := map[string][]string{
		auth.FeeCollectorName: nil,
		types.StakedPoolName:  {auth.Burner, auth.Staking, auth.Minter},
		types.ModuleName:      {auth.Burner, auth.Staking, auth.Minter},
	}
	e.AK = authkeeper.NewKeeper(cdc, e.KeyAcc, sdk.NewSubspace(auth.DefaultParamspace), maccPerms)
	e.AK.SetParams(e.Ctx, authtypes.DefaultParams())
	e.AK.SetSupply(e.Ctx, authtypes.NewSupply(sdk.NewCoins()))
	e.K = NewKeeper(cdc, e.KeyPOS, e.AK, sdk.NewSubspace(DefaultParamspace), DefaultParamspace)
	e.K.SetParams(e.Ctx, types.DefaultParams())
	for i := 0; i < nAcc; i++ {
		var pk crypto.Ed25519PublicKey
		pk[0] = byte(i + 1)
		pk[31] = byte(0xC0 + i)
		e.Pubs = append(e.Pubs, pk)
		e.Addrs = append(e.Addrs, sdk.Address(pk.Address()))
	}
	return e
}

func VCoins(amt sdk.Int) sdk.Coins { return sdk.NewCoins(sdk.NewCoin(VDenom, amt)) }

// VSymInt returns a symbolic non-negative sdk.Int in [lo, hi].
func VSymInt(name string, lo, hi int64) sdk.Int {
	return sdk.NewIntFromBigInt(zz.Big(name, big.NewInt(lo), big.NewInt(hi)))
}

// Fund mints amt into the staked-pool module (it has the Minter permission) and forwards it to addr,
// so that supply == sum of balances holds by construction through the real bank API.
func (e *VEnv) Fund(addr sdk.Address, amt sdk.Int) {
	if amt.IsZero() {
		return
	}
	if err := e.AK.MintCoins(e.Ctx, types.StakedPoolName, VCoins(amt)); err != nil {
		panic(err)
	}
	if err := e.AK.SendCoinsFromModuleToAccount(e.Ctx, types.StakedPoolName, addr, VCoins(amt)); err != nil {
		panic(err)
	}
}

func (e *VEnv) Bal(addr sdk.Address) sdk.Int { return e.AK.GetCoins(e.Ctx, addr).AmountOf(VDenom) }
func (e *VEnv) Pool() sdk.Int                { return e.K.GetStakedTokens(e.Ctx) }
func (e *VEnv) Supply() sdk.Int              { return e.AK.GetSupply(e.Ctx).GetTotal().AmountOf(VDenom) }
func (e *VEnv) ModBal(name string) sdk.Int {
	return e.Bal(e.AK.GetModuleAddress(name))
}

// SumBalances adds up every account in the auth store.
func (e *VEnv) SumBalances() sdk.Int {
	sum := sdk.ZeroInt()
	for _, acc := range e.AK.GetAllAccounts(e.Ctx) {
		sum = sum.Add(acc.GetCoins().AmountOf(VDenom))
	}
	return sum
}

// SumStake adds the recorded stake of every validator that is not Unstaked.
func (e *VEnv) SumStake() sdk.Int {
	sum := sdk.ZeroInt()
	for _, v := range e.K.GetAllValidators(e.Ctx) {
		if v.Status != sdk.Unstaked {
			sum = sum.Add(v.StakedTokens)
		}
	}
	return sum
}

func (e *VEnv) Val(i int) (types.Validator, bool) { return e.K.GetValidator(e.Ctx, e.Addrs[i]) }

// NewVal returns an unregistered, unstaked validator record with zero stake for account i.
func (e *VEnv) NewVal(i int) types.Validator {
	v := types.NewValidator(e.Addrs[i], e.Pubs[i], sdk.ZeroInt())
	v.Status = sdk.Unstaked
	return v
}

// Stake registers (if needed) and stakes validator i with amt through the keeper API.
func (e *VEnv) Stake(i int, amt sdk.Int) {
	v, found := e.Val(i)
	if !found {
		v = e.NewVal(i)
		e.K.RegisterValidator(e.Ctx, v)
	}
	e.K.StakeValidator(e.Ctx, v, amt)
}

// WithTime moves the block time/height forward.
func (e *VEnv) Advance(d time.Duration, blocks int64) {
	e.Ctx = e.Ctx.WithBlockHeader(abci.Header{ChainID: "verif-chain", Height: e.Ctx.BlockHeight() + blocks, Time: e.Ctx.BlockHeader().Time.Add(d), ProposerAddress: e.Ctx.BlockHeader().ProposerAddress})
}

// VerifC04_Smoke: stake via the keeper moves exactly amount account->pool and records it.
func VerifC04_Smoke() {
	e := VNewEnv(2)
	bal := VSymInt("bal", 0, 1<<62)
	e.Fund(e.Addrs[0], bal)
	amt := VSymInt("amt", 1000000, 1<<62)
	zz.Assume(amt.LTE(bal))
	e.Stake(0, amt)
	v, ok := e.Val(0)
	zz.Assert("C04.smoke.recorded", ok && v.StakedTokens.Equal(amt))
	zz.Assert("C04.smoke.pool", e.Pool().Equal(amt))
	zz.Assert("C04.smoke.balance", e.Bal(e.Addrs[0]).Equal(bal.Sub(amt)))
	zz.Assert("C04.smoke.supply", e.Supply().Equal(bal) && e.SumBalances().Equal(bal))
	zz.Reach("C04.smoke")
}

// ---- helpers exported for the harnesses of package pos (x/pos) ----

func (e *VEnv) Slash(i int, power int64, frac sdk.Dec) sdk.Error {
	return e.K.slash(e.Ctx, e.Addrs[i], e.Ctx.BlockHeight(), power, frac)
}

// IndexKeys returns the raw entries of the power index (prefix 0x23) as (key, value) pairs.
func (e *VEnv) IndexEntries() (keys [][]byte, vals [][]byte) {
	it := sdk.KVStorePrefixIterator(e.Ctx.KVStore(e.KeyPOS), types.StakedValidatorsKey)
	defer it.Close()
	for ; it.Valid(); it.Next() {
		keys = append(keys, it.Key())
		vals = append(vals, it.Value())
	}
	return
}

// QueueHas reports whether the unstaking queue holds addr at time t.
func (e *VEnv) QueueHas(t time.Time, addr sdk.Address) bool {
	for _, a := range e.K.getUnstakingValidators(e.Ctx, t) {
		if a.Equals(addr) {
			return true
		}
	}
	return false
}

// QueueLen returns the total number of addresses queued (all times).
func (e *VEnv) QueueLen() int {
	n := 0
	it := sdk.KVStorePrefixIterator(e.Ctx.KVStore(e.KeyPOS), types.UnstakingValidatorsKey)
	defer it.Close()
	for ; it.Valid(); it.Next() {
		var addrs []sdk.Address
		e.K.cdc.MustUnmarshalBinaryLengthPrefixed(it.Value(), &addrs)
		n += len(addrs)
	}
	return n
}

func (e *VEnv) SigningInfo(i int) (types.ValidatorSigningInfo, bool) {
	return e.K.GetValidatorSigningInfo(e.Ctx, e.Addrs[i])
}

func (e *VEnv) SetSigningInfo(i int, info types.ValidatorSigningInfo) {
	e.K.SetValidatorSigningInfo(e.Ctx, e.Addrs[i], info)
}

func (e *VEnv) PrevStatePower(i int) (int64, bool) {
	m := e.K.getPrevStatePowerMap(e.Ctx)
	var a [sdk.AddrLen]byte
	copy(a[:], e.Addrs[i])
	bz, ok := m[a]
	if !ok {
		return 0, false
	}
	var p int64
	e.K.cdc.MustUnmarshalBinaryLengthPrefixed(bz, &p)
	return p, true
}

// VHandleVote / VMissedAt: one vote of validator i through handleValidatorSignature; slot s of its missed-block window.
func (k Keeper) VHandleVote(ctx sdk.Ctx, e *VEnv, i int, power int64, signed bool) {
	k.handleValidatorSignature(ctx, e.Pubs[i].Address(), power, signed)
}
func (k Keeper) VMissedAt(ctx sdk.Ctx, e *VEnv, i int, slot int64) bool {
	return k.getMissedBlockArray(ctx, e.Addrs[i], slot)
}

// VRestart: what a restarted process has - freshly constructed keepers (nothing remembered in memory) over the same
// stores and the same block context.
func VRestart(e *VEnv) *VEnv {
	r := *e
	cdc := vMakeCodec()
	maccPerms := map[string][]string{
		auth.FeeCollectorName: nil,
		types.StakedPoolName:  {auth.Burner, auth.Staking, auth.Minter},
		types.ModuleName:      {auth.Burner, auth.Staking, auth.Minter},
	}
	r.AK = authkeeper.NewKeeper(cdc, e.KeyAcc, sdk.NewSubspace(auth.DefaultParamspace), maccPerms)
	r.K = NewKeeper(cdc, e.KeyPOS, r.AK, sdk.NewSubspace(DefaultParamspace), DefaultParamspace)
	return &r
}
