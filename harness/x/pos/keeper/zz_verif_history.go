package keeper

import (
	"time"

	abci "github.com/tendermint/tendermint/abci/types"

	sdk "github.com/pokt-network/posmint/types"
	"github.com/pokt-network/posmint/x/pos/types"
	zz "github.com/pokt-network/posmint/zzverif"
)

// vStepIn: the symbolic inputs of one history step (drawn once, so that two replicas can be fed the same step).
type vStepIn struct {
	op, vi      int
	amt, send   sdk.Int
	power, dt   int64
	frac        sdk.Dec
	fees, award sdk.Int
	signed      bool
	dest        int
	inner       *vStepIn
}

// vSym: a symbolic amount in [lo,hi] (thorough tier, or when sym is forced) or the fixed representative c (quick tier:
// the exact arithmetic of every single operation is decided with symbolic amounts by the one-step harnesses; the
// history harnesses explore the combinations of operations).
var vHistorySymbolic = false

// vMinRaised: the minimum stake was raised during the history (validators staked under the old minimum may be below it)
var vMinRaised = false

func vSym(name string, lo, hi, c int64) sdk.Int {
	if vHistorySymbolic {
		return VSymInt(name, lo, hi)
	}
	return sdk.NewInt(c)
}

func vDrawStep(tag string, nOps int) vStepIn {
	in := vStepIn{op: zz.Choice(tag+".op", nOps)}
	if zz.Choice(tag+".val", 2) == 1 {
		in.vi = 2
	}
	switch in.op {
	case 0:
		in.amt = vSym(tag+".amt", 1, 1<<50, 2500000)
	case 2:
		in.dt = zz.Int64(tag+".dt", -2, 2)
	case 3:
		if vHistorySymbolic {
			in.power = zz.Int64(tag+".power", 0, 1<<40)
			in.frac = vFraction(tag + ".frac")
		} else {
			// a small slash, one that crosses the minimum stake, one that takes everything
			in.power = []int64{1, 3, 1 << 30}[zz.Choice(tag+".power", 3)]
			in.frac = sdk.NewDecWithPrec(5, 1)
		}
	case 6:
		in.send = vSym(tag+".send", 0, 1<<50, 1234)
		in.dest = zz.Choice(tag+".dest", 4)
	case 7:
		in.fees = vSym(tag+".fees", 0, 1000, 17)
		in.award = vSym(tag+".award", 1, 1<<40, 4321)
	case 8:
		in.signed = zz.Bool(tag + ".signed")
		in.power = 2
	case 9:
		sub := vDrawStep(tag+".discarded", 8)
		in.inner = &sub
	case 10:
		in.frac = []sdk.Dec{sdk.NewDecWithPrec(1, 2), sdk.NewDecWithPrec(5, 1), sdk.OneDec()}[zz.Choice(tag+".severity", 3)]
	}
	return in
}

// vApplyStep applies one operation of the staking/bank alphabet through the real keeper API.  Operations whose
// precondition does not hold in the current state are refused by the keeper (or skipped here when the keeper API
// documents a precondition instead of checking it).
func vApplyStep(e *VEnv, in vStepIn) {
	vi := in.vi
	switch in.op {
	case 0: // (re)stake with a symbolic amount, if the keeper's own validation admits it
		v, found := e.Val(vi)
		if !found {
			v = e.NewVal(vi)
		}
		if e.K.ValidateValidatorStaking(e.Ctx, v, in.amt) == nil {
			if !found {
				e.K.RegisterValidator(e.Ctx, v)
			}
			e.K.StakeValidator(e.Ctx, v, in.amt)
		}
	case 1: // begin unstaking (the message handler's validation panics for a validator that a raised minimum left below
		// it; baseapp.runTx recovers handler panics and fails the transaction)
		if v, ok := e.Val(vi); ok {
			valid := false
			func() {
				defer func() { recover() }()
				valid = e.K.ValidateValidatorBeginUnstaking(e.Ctx, v) == nil
			}()
			if valid {
				if err := e.K.BeginUnstakingValidator(e.Ctx, v); err != nil {
					panic(err)
				}
			}
		}
	case 2: // time passes (symbolic: before / at / after the unstaking time), EndBlock
		e.Advance(e.K.UnStakingTime(e.Ctx)+time.Duration(in.dt), 1)
		EndBlocker(e.Ctx, e.K)
	case 3: // slash
		if _, ok := e.Val(vi); ok {
			_ = e.Slash(vi, in.power, in.frac)
		}
	case 4: // jail
		if v, ok := e.Val(vi); ok && !v.Jailed {
			e.K.JailValidator(e.Ctx, e.Addrs[vi])
		}
	case 5: // unjail (keeper-level precondition: jailed)
		if v, ok := e.Val(vi); ok && v.Jailed {
			e.K.UnjailValidator(e.Ctx, e.Addrs[vi])
		}
	case 6: // plain transfer between accounts, possibly more than the balance
		// to another account, or to the address of a module account (fee collector, pos module, staked pool) that may
		// not have been created yet
		to := e.Addrs[1]
		switch in.dest {
		case 1:
			to = e.AK.GetModuleAddress("fee_collector")
		case 2:
			to = e.AK.GetModuleAddress(types.ModuleName)
		case 3:
			to = e.AK.GetModuleAddress(types.StakedPoolName)
		}
		if err := e.AK.SendCoins(e.Ctx, e.Addrs[vi], to, VCoins(in.send)); err == nil && in.dest == 3 {
			e.Direct = e.Direct.Add(in.send)
		}
	case 7: // a block with fees and one award
		if e.Bal(e.Addrs[1]).GTE(in.fees) && !in.fees.IsZero() {
			if err := e.AK.SendCoinsFromAccountToModule(e.Ctx, e.Addrs[1], "fee_collector", VCoins(in.fees)); err != nil {
				panic(err)
			}
		}
		e.K.AwardCoinsTo(e.Ctx, in.award, e.Addrs[vi])
		e.K.SetPreviousProposer(e.Ctx, e.Addrs[1])
		e.Advance(time.Second, 1)
		BeginBlocker(e.Ctx, abci.RequestBeginBlock{Header: abci.Header{ProposerAddress: e.Addrs[1]}}, e.K)
	case 8: // one block with a (missed or signed) vote of the validator (Tendermint reports votes of validators of its set
		// only: they have signing info)
		if _, ok := e.SigningInfo(vi); !ok {
			break
		}
		e.Advance(time.Second, 1)
		e.K.handleValidatorSignature(e.Ctx, e.Pubs[vi].Address(), in.power, in.signed)
	case 12: // confirmed double-sign evidence (inside the evidence window) against the validator arrives with a block
		if v, ok := e.Val(vi); ok && v.Status != sdk.Unstaked {
			// (evidence that the same BeginBlock's queued burns turn into evidence against an unstaked validator makes
			// handleDoubleSign panic - an observation recorded in DESIGN.md, outside the statements; not driven here)
			if info, found := e.SigningInfo(vi); found && !info.Tombstoned && len(vPrefixKeys(e, types.BurnValidatorKey)) == 0 {
				e.K.SetPreviousProposer(e.Ctx, e.Addrs[1])
				e.Advance(time.Second, 1)
				req := abci.RequestBeginBlock{
					Header: abci.Header{ProposerAddress: e.Addrs[1]},
					ByzantineValidators: []abci.Evidence{{Type: "duplicate/vote", Validator: abci.Validator{Address: e.Pubs[vi].Address(), Power: v.ConsensusPower()},
						Height: e.Ctx.BlockHeight() - 1, Time: e.Ctx.BlockHeader().Time.Add(-10 * time.Second)}},
				}
				BeginBlocker(e.Ctx, req, e.K)
			}
		}
	case 11: // governance raises the minimum stake (validators below it keep their stake but cannot finish/join normally)
		p := e.K.GetParams(e.Ctx)
		p.StakeMinimum = 3000000
		e.K.SetParams(e.Ctx, p)
		vMinRaised = true
	case 10: // the application queues a custom burn for the validator (applied by the next BeginBlocker)
		if _, ok := e.Val(vi); ok {
			e.K.BurnValidator(e.Ctx, e.Addrs[vi], in.frac)
		}
	case 9: // a step executed on a cache-wrapped branch of the state that is then discarded (simulation, failed tx)
		branch := *e
		cctx, _ := e.Ctx.CacheContext()
		branch.Ctx = cctx
		vApplyStep(&branch, *in.inner)
	}
}

func vHistoryEnv() *VEnv {
	e := VNewEnv(3)
	e.Fund(e.Addrs[1], sdk.NewInt(30000000))
	e.Stake(1, sdk.NewInt(20000000))
	return e
}

// vHistory: a bounded history of symbolic operations from a state with one staked bystander (validator 1), a
// validator 0 with symbolic stake and a funded plain account 2: after every step supply == sum of balances, the staked
// pool == sum of the recorded stake of all non-unstaked validators, no balance is negative, and no staked validator
// is below the minimum stake.
func vHistory(p string, steps int, symbolic bool) {
	vHistorySymbolic = symbolic
	vMinRaised = false
	nOps := 13
	if steps > 2 || symbolic {
		nOps = 8 // longer histories, and histories with symbolic amounts, over the core alphabet (no discarded branches, votes, custom burns)
	}
	e := vHistoryEnv()
	e.Fund(e.Addrs[2], vSym("bal2", 0, 1<<50, 7000000))
	bal0 := vSym("bal0", 1000000, 1<<50, 9000000)
	e.Fund(e.Addrs[0], bal0)
	stake0 := vSym("stake0", 1000000, 1<<50, 2000000)
	zz.Assume(stake0.LTE(bal0))
	e.Stake(0, stake0)
	if p == "C04" && zz.Choice("v0_already_unstaking", 2) == 1 {
		v, _ := e.Val(0)
		if err := e.K.BeginUnstakingValidator(e.Ctx, v); err != nil {
			panic(err)
		}
	}
	for s := 0; s < steps; s++ {
		vApplyStep(e, vDrawStep([]string{"s1", "s2", "s3"}[s], nOps))
		e.invariants(p + ".history")
		min := sdk.NewInt(e.K.MinimumStake(e.Ctx))
		ok := true
		for i := range e.Addrs {
			if v, found := e.Val(i); found && v.Status == sdk.Staked && v.StakedTokens.LT(min) {
				ok = false
			}
		}
		zz.Assert(p+".history.staked-validators-hold-the-minimum", ok || vMinRaised)
	}
	zz.Reach(p + ".history")
}

// quick: two steps with representative amounts; thorough adds two steps with symbolic amounts and three steps
func VerifC04_History()      { vHistory("C04", 2, false) }
func VerifC02_History()      { vHistory("C02", 2, false) }
func VerifC04T_HistorySym()  { vHistory("C04", 2, true) }
func VerifC02T_HistorySym()  { vHistory("C02", 2, true) }
func VerifC04T_HistoryLong() { vHistory("C04", 3, false) }

// VerifC01_Replicas: two independently built replicas of the pos/auth state are fed the same history (same symbolic
// inputs, same block times): after every step their stores are byte-for-byte identical.  The wall clock is an
// arbitrary fresh instant at every read and Go map iteration forks over all orders, so any dependence on either shows.
func VerifC01_Replicas() {
	vHistorySymbolic = false
	mk := func(bal2, bal0, stake0 sdk.Int) *VEnv {
		e := vHistoryEnv()
		e.Fund(e.Addrs[2], bal2)
		e.Fund(e.Addrs[0], bal0)
		e.Stake(0, stake0)
		// a short downtime window so that a few missed votes reach the jailing branch
		p := e.K.GetParams(e.Ctx)
		p.SignedBlocksWindow = 2
		p.MinSignedPerWindow = sdk.NewDecWithPrec(5, 1)
		e.K.SetParams(e.Ctx, p)
		return e
	}
	bal2 := vSym("bal2", 0, 1<<50, 7000000)
	bal0 := vSym("bal0", 1000000, 1<<50, 9000000)
	stake0 := vSym("stake0", 1000000, 1<<50, 2000000)
	zz.Assume(stake0.LTE(bal0))
	a, b := mk(bal2, bal0, stake0), mk(bal2, bal0, stake0)
	zz.Assert("C01.replicas.same-initial-state", a.MS.Same(b.MS.Snapshot()))
	zz.NondetMapOrder(true)
	steps := 2
	if zz.Thorough() {
		steps = 3
	}
	for s := 0; s < steps; s++ {
		in := vDrawStep([]string{"s1", "s2", "s3"}[s], 9)
		vApplyStep(a, in)
		vApplyStep(b, in)
		zz.Assert("C01.replicas.same-state-after-same-history", a.MS.Same(b.MS.Snapshot()))
	}
	zz.Reach("C01.replicas.end")
}

// VerifC01_ReplicaDowntime: the same, for a validator voted down over consecutive blocks (signed bits symbolic) until
// the downtime branch (slash + jail + jailed-until + window reset) has run.
func VerifC01_ReplicaDowntime() {
	mk := func() *VEnv {
		e := vHistoryEnv()
		e.Fund(e.Addrs[0], sdk.NewInt(50000000))
		e.Stake(0, sdk.NewInt(40000000))
		p := e.K.GetParams(e.Ctx)
		p.SignedBlocksWindow = 2
		p.MinSignedPerWindow = sdk.NewDecWithPrec(5, 1)
		e.K.SetParams(e.Ctx, p)
		info := types.ValidatorSigningInfo{Address: e.Addrs[0], StartHeight: e.Ctx.BlockHeight()}
		e.SetSigningInfo(0, info)
		return e
	}
	a, b := mk(), mk()
	jailed := false
	for s := 0; s < 5; s++ {
		signed := zz.Bool("signed")
		for _, e := range []*VEnv{a, b} {
			e.Advance(time.Second, 1)
			e.K.handleValidatorSignature(e.Ctx, e.Pubs[0].Address(), 40, signed)
		}
		zz.Assert("C01.replicas.same-state-after-same-votes", a.MS.Same(b.MS.Snapshot()))
		if v, ok := a.Val(0); ok && v.Jailed {
			jailed = true
		}
	}
	if jailed {
		zz.Reach("C01.replicas.downtime-jailed")
	}
	zz.Reach("C01.replicas.downtime.end")
}

// VerifC10_AwardDenom: on a chain whose staking token is not the default denomination, queued awards are minted in the
// staking token (the pos StakeDenom parameter), once, and nothing is minted in any other denomination.
func VerifC10_AwardDenom() {
	e := vHistoryEnv()
	p := e.K.GetParams(e.Ctx)
	p.StakeDenom = []string{sdk.DefaultStakeDenom, "ustake"}[zz.Choice("stake_denom", 2)]
	e.K.SetParams(e.Ctx, p)
	denom := e.K.StakeDenom(e.Ctx)
	a1, a2 := VSymInt("award1", 1, 1<<50), VSymInt("award2", 1, 1<<50)
	e.K.AwardCoinsTo(e.Ctx, a1, e.Addrs[2])
	e.K.AwardCoinsTo(e.Ctx, a2, e.Addrs[2])
	e.K.SetPreviousProposer(e.Ctx, e.Addrs[1])
	preSupply := e.AK.GetSupply(e.Ctx).GetTotal()
	pre := e.AK.GetCoins(e.Ctx, e.Addrs[2])
	e.Advance(time.Second, 1)
	BeginBlocker(e.Ctx, abci.RequestBeginBlock{Header: abci.Header{ProposerAddress: e.Addrs[1]}}, e.K)
	post := e.AK.GetCoins(e.Ctx, e.Addrs[2])
	postSupply := e.AK.GetSupply(e.Ctx).GetTotal()
	sum := a1.Add(a2)
	zz.Assert("C10.award-denom.minted-in-staking-token", post.AmountOf(denom).Sub(pre.AmountOf(denom)).Equal(sum) && postSupply.AmountOf(denom).Sub(preSupply.AmountOf(denom)).Equal(sum))
	for _, d := range []string{sdk.DefaultStakeDenom, "ustake"} {
		if d != denom {
			zz.Assert("C10.award-denom.nothing-minted-in-another-denomination", post.AmountOf(d).Equal(pre.AmountOf(d)) && postSupply.AmountOf(d).Equal(preSupply.AmountOf(d)))
		}
	}
	zz.Reach("C10.award-denom.end")
}

// VerifC11_DiscardedBranch: a step executed on a cache-wrapped branch of the state that is then discarded (what Simulate,
// CheckTx and a failed transaction amount to) leaves no trace - neither in the stores nor in anything the keepers
// remember outside them: the same real step afterwards gives exactly the state of a replica that never ran the
// discarded one, and reads through the keeper in between return the old values.
func VerifC11_DiscardedBranch() {
	vHistorySymbolic = false
	mk := func(bal2, bal0, stake0 sdk.Int) *VEnv {
		e := vHistoryEnv()
		e.Fund(e.Addrs[2], bal2)
		e.Fund(e.Addrs[0], bal0)
		e.Stake(0, stake0)
		return e
	}
	bal2 := vSym("bal2", 0, 1<<50, 7000000)
	bal0 := vSym("bal0", 1000000, 1<<50, 9000000)
	stake0 := vSym("stake0", 1000000, 1<<50, 2000000)
	zz.Assume(stake0.LTE(bal0))
	a, b := mk(bal2, bal0, stake0), mk(bal2, bal0, stake0)
	discarded := vDrawStep("discarded", 8)
	pre := a.snap()
	store := a.MS.Snapshot()
	branch := *a
	cctx, _ := a.Ctx.CacheContext()
	branch.Ctx = cctx
	vApplyStep(&branch, discarded)
	zz.Assert("C11.discarded.stores-unchanged", a.MS.Same(store))
	post := a.snap()
	same := post.pool.Equal(pre.pool) && post.supply.Equal(pre.supply) && post.fee.Equal(pre.fee) && post.posMod.Equal(pre.posMod)
	for i := range a.Addrs {
		same = same && post.bal[i].Equal(pre.bal[i]) && post.stake[i].Equal(pre.stake[i]) && post.status[i] == pre.status[i] && post.found[i] == pre.found[i]
		va, fa := a.Val(i)
		vb, fb := b.Val(i)
		same = same && fa == fb && (!fa || (va.Jailed == vb.Jailed && va.Status == vb.Status && va.StakedTokens.Equal(vb.StakedTokens)))
	}
	zz.Assert("C11.discarded.keeper-reads-unchanged", same)
	real := vDrawStep("real", 8)
	vApplyStep(a, real)
	vApplyStep(b, real)
	zz.Assert("C11.discarded.later-execution-unaffected", a.MS.Same(b.MS.Snapshot()))
	zz.Reach("C11.discarded.end")
}

// VerifC10_AwardAfterDiscardedBranch: an award queued on a cache-wrapped branch that is discarded (failed or simulated
// transaction) is not minted; an award queued for the same address afterwards in the same block is minted exactly.
func VerifC10_AwardAfterDiscardedBranch() {
	e := vHistoryEnv()
	e.K.SetPreviousProposer(e.Ctx, e.Addrs[1])
	lost, kept := VSymInt("discarded_award", 1, 1<<50), VSymInt("committed_award", 1, 1<<50)
	cctx, _ := e.Ctx.CacheContext()
	e.K.AwardCoinsTo(cctx, lost, e.Addrs[2])
	e.K.AwardCoinsTo(e.Ctx, kept, e.Addrs[2])
	pre := e.snap()
	e.Advance(time.Second, 1)
	BeginBlocker(e.Ctx, abci.RequestBeginBlock{Header: abci.Header{ProposerAddress: e.Addrs[1]}}, e.K)
	post := e.snap()
	zz.Assert("C10.discarded-award.only-the-committed-award-is-minted", post.bal[2].Sub(pre.bal[2]).Equal(kept) && post.supply.Sub(pre.supply).Equal(kept))
	zz.Reach("C10.discarded-award.end")
}

// VerifC01_KeeperRestart: a running instance and one restarted from the same stores (fresh keeper objects) behave the
// same: after a history step, a change of a pos parameter written the way governance writes it (directly into the
// parameter subspace) and possibly a read of an older state, every read through the keepers and the next EndBlock
// give the same answers - whatever a keeper remembers outside the stores must not matter.
func VerifC01_KeeperRestart() {
	vHistorySymbolic = false
	e := vHistoryEnv()
	e.Fund(e.Addrs[2], sdk.NewInt(7000000))
	e.Fund(e.Addrs[0], sdk.NewInt(9000000))
	e.Stake(0, sdk.NewInt(2000000))
	_ = e.K.GetParams(e.Ctx) // the running instance has read its parameters before
	vApplyStep(e, vDrawStep("s1", 9))
	// governance changes a pos parameter through the parameter store (gov.ModifyParam -> Subspace.Update/Set)
	switch zz.Choice("param_change", 3) {
	case 1:
		e.K.Paramstore.Set(e.Ctx, types.KeyMaxValidators, uint64(1))
	case 2:
		e.K.Paramstore.Set(e.Ctx, types.KeyUnstakingTime, time.Duration(5*time.Second))
	}
	r := VRestart(e)
	pa, pb := e.K.GetParams(e.Ctx), r.K.GetParams(r.Ctx)
	zz.Assert("C01.restart.same-parameters", pa.MaxValidators == pb.MaxValidators && pa.UnstakingTime == pb.UnstakingTime && pa.StakeMinimum == pb.StakeMinimum && pa.SignedBlocksWindow == pb.SignedBlocksWindow)
	zz.Assert("C01.restart.same-supply-read", e.Supply().Equal(r.Supply()))
	for i := range e.Addrs {
		va, fa := e.Val(i)
		vb, fb := r.Val(i)
		zz.Assert("C01.restart.same-validator-read", fa == fb && (!fa || (va.Jailed == vb.Jailed && va.Status == vb.Status && va.StakedTokens.Equal(vb.StakedTokens))))
	}
	// the next step and EndBlock, executed by the running instance on one branch and by the restarted one on another
	in := vDrawStep("s2", 9)
	ca, _ := e.Ctx.CacheContext()
	cb, _ := r.Ctx.CacheContext()
	ea, eb := *e, *r
	ea.Ctx, eb.Ctx = ca, cb
	vApplyStep(&ea, in)
	vApplyStep(&eb, in)
	ua, ub := EndBlocker(ea.Ctx, ea.K), EndBlocker(eb.Ctx, eb.K)
	same := len(ua) == len(ub)
	for i := 0; same && i < len(ua); i++ {
		same = ua[i].Power == ub[i].Power && ua[i].PubKey.Type == ub[i].PubKey.Type && string(ua[i].PubKey.Data) == string(ub[i].PubKey.Data)
	}
	zz.Assert("C01.restart.same-validator-updates", same)
	zz.Reach("C01.restart.keeper.end")
}

// VerifC01_ProcessHistoryIndependence: what a process did before must not matter: the same history executed on a
// fresh state before and after the process has run an unrelated chain (awards to one address twice in a block, a
// slash, a stake, blocks with fees) ends in byte-identical stores - nothing the code keeps in package-level or
// keeper-level memory leaks from one chain into the next.
func VerifC01_ProcessHistoryIndependence() {
	vHistorySymbolic = false
	mk := func() *VEnv {
		e := vHistoryEnv()
		e.Fund(e.Addrs[2], sdk.NewInt(7000000))
		e.Fund(e.Addrs[0], sdk.NewInt(9000000))
		e.Stake(0, sdk.NewInt(2000000))
		return e
	}
	h1, h2 := vDrawStep("s1", 9), vDrawStep("s2", 9)
	a := mk()
	vApplyStep(a, h1)
	vApplyStep(a, h2)
	// an unrelated chain in the same process
	j := mk()
	j.K.AwardCoinsTo(j.Ctx, sdk.NewInt(100), j.Addrs[2])
	j.K.AwardCoinsTo(j.Ctx, sdk.NewInt(50), j.Addrs[2])
	j.K.SetPreviousProposer(j.Ctx, j.Addrs[1])
	j.Advance(time.Second, 1)
	BeginBlocker(j.Ctx, abci.RequestBeginBlock{Header: abci.Header{ProposerAddress: j.Addrs[1]}}, j.K)
	_ = j.Slash(0, 1, sdk.NewDecWithPrec(5, 1))
	j.K.BurnValidator(j.Ctx, j.Addrs[1], sdk.NewDecWithPrec(1, 1))
	j.K.BurnValidator(j.Ctx, j.Addrs[1], sdk.NewDecWithPrec(2, 1))
	j.Advance(time.Second, 1)
	BeginBlocker(j.Ctx, abci.RequestBeginBlock{Header: abci.Header{ProposerAddress: j.Addrs[1]}}, j.K)
	EndBlocker(j.Ctx, j.K)
	// the same history again
	b := mk()
	vApplyStep(b, h1)
	vApplyStep(b, h2)
	zz.Assert("C01.process.same-history-same-state-whatever-ran-before", a.MS.Same(b.MS.Snapshot()))
	zz.Reach("C01.process.end")
}

// VerifC10_ProposerAddressShapes: the proposer address of a block header need not be a 20-byte address of a known
// validator (empty, short, long, unknown): the fees of such a block stay in the pos module account at the next
// BeginBlock - they are not paid to the proposer of an earlier block.
func VerifC10_ProposerAddressShapes() {
	e := vHistoryEnv()
	e.Fund(e.Addrs[2], sdk.NewInt(7000000))
	shapes := [][]byte{{}, {1, 2, 3, 4}, make([]byte, 32), make([]byte, 20)}
	odd := shapes[zz.Choice("proposer_shape", len(shapes))]
	// block H-1 was proposed by validator 1
	e.K.SetPreviousProposer(e.Ctx, e.Addrs[1])
	// block H: proposed by the odd address; BeginBlock(H) pays H-1's (zero) fees and records H's proposer
	e.Advance(time.Second, 1)
	BeginBlocker(e.Ctx, abci.RequestBeginBlock{Header: abci.Header{ProposerAddress: odd}}, e.K)
	fees := VSymInt("fees", 1, 1000000)
	if err := e.AK.SendCoinsFromAccountToModule(e.Ctx, e.Addrs[2], "fee_collector", VCoins(fees)); err != nil {
		panic(err)
	}
	pre := e.snap()
	// block H+1
	e.Advance(time.Second, 1)
	BeginBlocker(e.Ctx, abci.RequestBeginBlock{Header: abci.Header{ProposerAddress: e.Addrs[1]}}, e.K)
	post := e.snap()
	zz.Assert("C10.proposer-shapes.fees-of-an-unknown-proposers-block-stay-in-the-pos-module",
		post.posMod.Sub(pre.posMod).Equal(fees) && post.fee.IsZero() && post.bal[1].Equal(pre.bal[1]) && post.bal[0].Equal(pre.bal[0]))
	zz.Reach("C10.proposer-shapes.end")
}

// VerifC10_AwardToAnyAddress: awards reach the address they were queued for whatever its bytes - also when it begins
// with the byte the award / burn / prev-state keys use as their prefix.
func VerifC10_AwardToAnyAddress() {
	e := vHistoryEnv()
	first := []byte{0x51, 0x52, 0x31, 0x00, 0xff}[zz.Choice("first_byte", 5)]
	addr := sdk.Address(append([]byte{first, first}, make([]byte, 18)...))
	amt := VSymInt("award", 1, 1<<50)
	e.K.AwardCoinsTo(e.Ctx, amt, addr)
	e.K.SetPreviousProposer(e.Ctx, e.Addrs[1])
	preSupply := e.Supply()
	e.Advance(time.Second, 1)
	BeginBlocker(e.Ctx, abci.RequestBeginBlock{Header: abci.Header{ProposerAddress: e.Addrs[1]}}, e.K)
	zz.Assert("C10.any-address.award-reaches-its-address", e.Bal(addr).Equal(amt) && e.Supply().Sub(preSupply).Equal(amt))
	zz.Assert("C10.any-address.queue-emptied", len(vPrefixKeys(e, types.AwardValidatorKey)) == 0)
	zz.Reach("C10.any-address.end")
}

// VerifC04_DirectSendBeforePoolExists: coins sent to the staked pool's address before its module account exists (no
// stake, mint or burn has happened yet) are kept: after the first stake the pool holds the stake plus those coins.
func VerifC04_DirectSendBeforePoolExists() {
	e := VNewEnv(2)
	// (funded through the pos module account, so that the staked pool's module account does not exist yet)
	for i := 0; i < 2; i++ {
		if err := e.AK.MintCoins(e.Ctx, types.ModuleName, VCoins(sdk.NewInt(50000000))); err != nil {
			panic(err)
		}
		if err := e.AK.SendCoinsFromModuleToAccount(e.Ctx, types.ModuleName, e.Addrs[i], VCoins(sdk.NewInt(50000000))); err != nil {
			panic(err)
		}
	}
	direct := VSymInt("direct", 1, 1000000)
	pool := e.AK.GetModuleAddress(types.StakedPoolName)
	if err := e.AK.SendCoins(e.Ctx, e.Addrs[1], pool, VCoins(direct)); err != nil {
		panic(err)
	}
	e.Direct = direct
	stake := VSymInt("stake0", 1000000, 40000000)
	e.Stake(0, stake)
	zz.Assert("C04.direct-first.pool-holds-stake-plus-direct-coins", e.Pool().Equal(stake.Add(direct)))
	e.invariants("C04.direct-first")
	// and the stake comes back in full
	v, _ := e.Val(0)
	if err := e.K.BeginUnstakingValidator(e.Ctx, v); err != nil {
		panic(err)
	}
	pre := e.Bal(e.Addrs[0])
	e.Advance(e.K.UnStakingTime(e.Ctx), 1)
	EndBlocker(e.Ctx, e.K)
	zz.Assert("C04.direct-first.unstake-returns-the-stake", e.Bal(e.Addrs[0]).Sub(pre).Equal(stake) && e.Pool().Equal(direct))
	zz.Reach("C04.direct-first.end")
}
