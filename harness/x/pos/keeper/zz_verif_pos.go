package keeper

import (
	"math/big"
	"time"

	abci "github.com/tendermint/tendermint/abci/types"

	sdk "github.com/pokt-network/posmint/types"
	"github.com/pokt-network/posmint/x/auth"
	"github.com/pokt-network/posmint/x/pos/types"
	zz "github.com/pokt-network/posmint/zzverif"
)

// ---------------------------------------------------------------- shared pieces

const (
	vStStaked = iota
	vStJailed
	vStUnstaking
	vStJailedUnstaking
)

type vSnap struct {
	bal    []sdk.Int
	pool   sdk.Int
	supply sdk.Int
	stake  []sdk.Int
	status []sdk.StakeStatus
	found  []bool
	fee    sdk.Int
	posMod sdk.Int
}

func (e *VEnv) snap() vSnap {
	s := vSnap{pool: e.Pool(), supply: e.Supply(), fee: e.ModBal(auth.FeeCollectorName), posMod: e.ModBal(types.ModuleName)}
	for i := range e.Addrs {
		s.bal = append(s.bal, e.Bal(e.Addrs[i]))
		v, ok := e.Val(i)
		s.found = append(s.found, ok)
		if ok {
			s.stake = append(s.stake, v.StakedTokens)
			s.status = append(s.status, v.Status)
		} else {
			s.stake = append(s.stake, sdk.ZeroInt())
			s.status = append(s.status, sdk.Unstaked)
		}
	}
	return s
}

// invariants asserts the two global token invariants (C02, C04) under the given assertion-id prefix.
func (e *VEnv) invariants(p string) {
	zz.Assert(p+".supply==sum-of-balances", e.Supply().Equal(e.SumBalances()))
	zz.Assert(p+".pool==sum-of-stake", e.Pool().Equal(e.SumStake().Add(e.Direct)))
	nonneg := true
	for _, acc := range e.AK.GetAllAccounts(e.Ctx) {
		if acc.GetCoins().AmountOf(VDenom).IsNegative() {
			nonneg = false
		}
	}
	zz.Assert(p+".no-negative-balance", nonneg)
}

// setup: validator 1 is a staked bystander, validator 0 has a symbolic stake and is put in a chosen lifecycle stage
// through the real keeper API; account 2 is a plain funded account.
func vSetup(stages int) (e *VEnv, stage int, stake0 sdk.Int) {
	e = VNewEnv(3)
	e.Fund(e.Addrs[1], sdk.NewInt(30000000))
	e.Stake(1, sdk.NewInt(20000000))
	e.Fund(e.Addrs[2], sdk.NewInt(5000000))
	bal0 := VSymInt("bal0", 0, 1<<60)
	e.Fund(e.Addrs[0], bal0)
	stake0 = VSymInt("stake0", 1000000, 1<<60)
	zz.Assume(stake0.LTE(bal0))
	e.Stake(0, stake0)
	stage = zz.Choice("stage", stages)
	if stage == vStJailed || stage == vStJailedUnstaking {
		e.K.JailValidator(e.Ctx, e.Addrs[0])
	}
	if stage == vStUnstaking || stage == vStJailedUnstaking {
		v, _ := e.Val(0)
		if err := e.K.BeginUnstakingValidator(e.Ctx, v); err != nil {
			panic(err)
		}
	}
	return
}

func vFraction(name string) sdk.Dec {
	s := func(v string) sdk.Dec { r, _ := new(big.Int).SetString(v, 10); return sdk.Dec{Int: r} }
	set := []sdk.Dec{s("0"), s("1"), s("10000000000000000"), s("50000000000000000"), s("333333333333333333"), s("999999999999999999"), s("1000000000000000000")}
	return set[zz.Choice(name, len(set))]
}

// vExactBurn: min(trunc(p*10^6*f), stake) stated declaratively (no use of decimal.go): f is an 18-decimal integer F,
// amount A satisfies A*10^18 <= p*10^6*F < (A+1)*10^18.
func vExactBurnOK(power int64, frac sdk.Dec, stake, burned *big.Int) bool {
	prod := new(big.Int).Mul(new(big.Int).Mul(big.NewInt(power), big.NewInt(1000000)), frac.Int)
	one := new(big.Int).Exp(big.NewInt(10), big.NewInt(18), nil)
	// candidate 1: burned == stake and stake <= trunc(prod/10^18)   <=> stake*10^18 <= prod
	capped := burned.Cmp(stake) == 0 && new(big.Int).Mul(stake, one).Cmp(prod) <= 0
	// candidate 2: burned == trunc(prod/10^18) and burned <= stake
	lo := new(big.Int).Mul(burned, one)
	exact := lo.Cmp(prod) <= 0 && new(big.Int).Add(lo, one).Cmp(prod) > 0 && burned.Cmp(stake) <= 0
	return capped || exact
}

// ---------------------------------------------------------------- C07

// VerifC07_Slash: one slash of validator 0 (staked / jailed / unstaking / jailed+unstaking) with symbolic power and a
// fraction from the boundary set: exact burn from stake, pool and supply; nobody else changes; below the minimum => force-unstaked.
func VerifC07_Slash() { vSlash("C07") }
func VerifC04_Slash() { vSlash("C04") }
func VerifC02_Slash() { vSlash("C02") }

func vSlash(p string) {
	e, _, _ := vSetup(4)
	pre := e.snap()
	power := zz.Int64("power", 0, 1<<60)
	frac := vFraction("frac")
	err := e.K.slash(e.Ctx, e.Addrs[0], e.Ctx.BlockHeight(), power, frac)
	_ = err // the statement fixes the effect of a slash, not its error value
	post := e.snap()
	minStake := big.NewInt(e.K.MinimumStake(e.Ctx))
	// exact amount A = min(trunc(power*10^6*F / 10^18), stake), F = fraction as an 18-decimal integer
	prod := new(big.Int).Mul(new(big.Int).Mul(big.NewInt(power), big.NewInt(1000000)), frac.Int)
	a := new(big.Int).Quo(prod, new(big.Int).Exp(big.NewInt(10), big.NewInt(18), nil))
	if a.Cmp(pre.stake[0].BigInt()) > 0 {
		a = pre.stake[0].BigInt()
	}
	rem := new(big.Int).Sub(pre.stake[0].BigInt(), a)
	if rem.Cmp(minStake) < 0 {
		zz.Assert(p+".slash.below-minimum-force-unstaked", post.status[0] == sdk.Unstaked && post.stake[0].IsZero())
		zz.Assert(p+".slash.below-minimum-burns-whole-stake", pre.pool.Sub(post.pool).Equal(pre.stake[0]) && pre.supply.Sub(post.supply).Equal(pre.stake[0]))
	} else {
		zz.Assert(p+".slash.exact-amount", post.stake[0].BigInt().Cmp(rem) == 0 && post.status[0] == pre.status[0])
		zz.Assert(p+".slash.exact-amount-declarative", vExactBurnOK(power, frac, pre.stake[0].BigInt(), pre.stake[0].Sub(post.stake[0]).BigInt()))
		zz.Assert(p+".slash.pool-and-supply", pre.pool.Sub(post.pool).BigInt().Cmp(a) == 0 && pre.supply.Sub(post.supply).BigInt().Cmp(a) == 0)
	}
	zz.Assert(p+".slash.others-unchanged", post.bal[0].Equal(pre.bal[0]) && post.bal[1].Equal(pre.bal[1]) && post.bal[2].Equal(pre.bal[2]) && post.stake[1].Equal(pre.stake[1]))
	e.invariants(p + ".slash")
	zz.Reach(p + ".slash")
}

// VerifC07_DoubleSign: double-sign evidence of every age against validator 0 in every stage, through BeginBlocker.
func VerifC07_DoubleSign() {
	e, _, _ := vSetup(4)
	pre := e.snap()
	age := zz.Int64("age_seconds", 0, 400) // MaxEvidenceAge = 120 s
	power := zz.Int64("power", 0, 1<<60)
	target := zz.Choice("target", 3) // 0: validator 0, 1: unknown address, 2: a validator that was force-unstaked before
	addr := e.Addrs[0]
	switch target {
	case 1:
		addr = sdk.Address(make([]byte, 20))
	case 2:
		v, _ := e.Val(0)
		if v.Status != sdk.Unstaked {
			_ = e.K.ForceValidatorUnstake(e.Ctx, v)
		}
		pre = e.snap()
	}
	ts := e.Ctx.BlockHeader().Time.Add(-time.Duration(age) * time.Second)
	req := abci.RequestBeginBlock{
		Header:              abci.Header{ProposerAddress: e.Addrs[1]},
		ByzantineValidators: []abci.Evidence{{Type: "duplicate/vote", Validator: abci.Validator{Address: addr, Power: power}, Height: e.Ctx.BlockHeight() - 1, Time: ts}},
	}
	e.K.SetPreviousProposer(e.Ctx, e.Addrs[1])
	panicked := false
	func() {
		defer func() {
			if r := recover(); r != nil {
				panicked = true
			}
		}()
		BeginBlocker(e.Ctx, req, e.K)
	}()
	inWindow := age <= 120
	if panicked && !(target == 0 && inWindow) {
		// BeginBlocker panics on evidence it is meant to ignore (unknown / unstaked / expired): the block is never
		// executed, so nothing is burned; recorded as an observation (outside the C07 statement), see DESIGN.md.
		zz.Reach("C07.doublesign.panic-on-ignorable-evidence")
		return
	}
	zz.Assert("C07.doublesign.confirmed-evidence-is-handled", !panicked)
	post := e.snap()
	if target == 0 && inWindow {
		info, _ := e.K.GetValidatorSigningInfo(e.Ctx, e.Addrs[0])
		v, _ := e.Val(0)
		zz.Assert("C07.doublesign.burns-entire-stake", post.stake[0].IsZero() && post.status[0] == sdk.Unstaked && pre.pool.Sub(post.pool).Equal(pre.stake[0]) && pre.supply.Sub(post.supply).Equal(pre.stake[0]))
		zz.Assert("C07.doublesign.tombstoned-and-jailed", info.Tombstoned && v.Jailed && info.JailedUntil.Equal(types.DoubleSignJailEndTime))
	} else {
		zz.Assert("C07.doublesign.burns-nothing", post.stake[0].Equal(pre.stake[0]) && post.pool.Equal(pre.pool) && post.supply.Equal(pre.supply) && post.status[0] == pre.status[0])
	}
	zz.Assert("C07.doublesign.others-unchanged", post.bal[0].Equal(pre.bal[0]) && post.bal[1].Equal(pre.bal[1]) && post.bal[2].Equal(pre.bal[2]) && post.stake[1].Equal(pre.stake[1]))
	e.invariants("C07.doublesign")
	zz.Reach("C07.doublesign")
}

// VerifC07_TwoSlashes: two slashes of the same validator in one block (custom burn queue + a direct slash).
func VerifC07_TwoSlashes() {
	e, _, _ := vSetup(2)
	pre := e.snap()
	var f1, f2 sdk.Dec
	if zz.Thorough() {
		f1, f2 = vFraction("f1"), vFraction("f2")
	} else {
		d := func(v int64) sdk.Dec { return sdk.Dec{Int: big.NewInt(v)} }
		f1 = []sdk.Dec{d(10000000000000000), d(333333333333333333), d(1000000000000000000)}[zz.Choice("f1", 3)]
		f2 = []sdk.Dec{d(50000000000000000), d(333333333333333333), d(1000000000000000000)}[zz.Choice("f2", 3)]
	}
	p1 := zz.Int64("p1", 0, 1<<60)
	v, _ := e.Val(0)
	err1 := e.K.slash(e.Ctx, e.Addrs[0], e.Ctx.BlockHeight(), p1, f1)
	mid := e.snap()
	e.K.setValidatorBurn(e.Ctx, f2, e.Addrs[0])
	var powerAtBurn int64
	if vv, ok := e.Val(0); ok {
		powerAtBurn = vv.ConsensusPower()
	}
	panicked := false
	func() {
		defer func() {
			if r := recover(); r != nil {
				panicked = true
			}
		}()
		e.K.burnValidators(e.Ctx)
	}()
	zz.Assert("C07.two.burn-queue-does-not-panic", !panicked)
	post := e.snap()
	_ = v
	if err1 == nil && mid.status[0] != sdk.Unstaked {
		zz.Assert("C07.two.first-exact", vExactBurnOK(p1, f1, pre.stake[0].BigInt(), pre.stake[0].Sub(mid.stake[0]).BigInt()))
	}
	if mid.status[0] != sdk.Unstaked && post.status[0] != sdk.Unstaked && !panicked {
		zz.Assert("C07.two.second-exact", vExactBurnOK(powerAtBurn, f2, mid.stake[0].BigInt(), mid.stake[0].Sub(post.stake[0]).BigInt()))
	}
	zz.Assert("C07.two.total-from-pool-and-supply", pre.pool.Sub(post.pool).Equal(pre.supply.Sub(post.supply)))
	zz.Assert("C07.two.burn-queue-emptied", len(vPrefixKeys(e, types.BurnValidatorKey)) == 0)
	e.invariants("C07.two")
	zz.Reach("C07.two")
}

func vPrefixKeys(e *VEnv, prefix []byte) [][]byte {
	var out [][]byte
	it := sdk.KVStorePrefixIterator(e.Ctx.KVStore(e.KeyPOS), prefix)
	defer it.Close()
	for ; it.Valid(); it.Next() {
		out = append(out, it.Key())
	}
	return out
}

// ---------------------------------------------------------------- C10 / C02 / C04 : rewards, awards, staking moves

// vRewards: fees collected in block H go to the proposer of H at BeginBlock(H+1); queued awards are minted exactly once.
func vRewards(p string) {
	e, _, _ := vSetup(3)
	// collected fees (symbolic), paid by account 2 into the fee collector through the real bank API
	fees := VSymInt("fees", 0, 4000000)
	if !fees.IsZero() {
		if err := e.AK.SendCoinsFromAccountToModule(e.Ctx, e.Addrs[2], auth.FeeCollectorName, VCoins(fees)); err != nil {
			panic(err)
		}
	}
	// awards queued during the block: to validator 0's address and/or to the plain account 2, possibly twice to the same address
	a1 := VSymInt("award1", 1, 1<<50)
	a2 := VSymInt("award2", 1, 1<<50)
	nAwards := zz.Choice("nawards", 3)
	var to0, to2 sdk.Int = sdk.ZeroInt(), sdk.ZeroInt()
	if nAwards >= 1 {
		e.K.AwardCoinsTo(e.Ctx, a1, e.Addrs[2])
		to2 = to2.Add(a1)
	}
	if nAwards >= 2 {
		if zz.Choice("award2to", 2) == 0 {
			e.K.AwardCoinsTo(e.Ctx, a2, e.Addrs[2])
			to2 = to2.Add(a2)
		} else {
			e.K.AwardCoinsTo(e.Ctx, a2, e.Addrs[0])
			to0 = to0.Add(a2)
		}
	}
	// previous proposer: validator 1 (known), validator 0 (any stage) or an address that is no validator
	prop := zz.Choice("proposer", 3)
	propAddr := e.Addrs[1]
	switch prop {
	case 1:
		propAddr = e.Addrs[0]
	case 2:
		propAddr = sdk.Address(make([]byte, 20))
	}
	if prop == 1 && zz.Choice("proposer_just_force_unstaked", 2) == 1 {
		// the proposer of the block was force-unstaked during it (its record remains, status Unstaked): still a known validator
		if v, ok := e.Val(0); ok && v.Status != sdk.Unstaked {
			if err := e.K.ForceValidatorUnstake(e.Ctx, v); err != nil {
				panic(err)
			}
		}
	}
	e.K.SetPreviousProposer(e.Ctx, propAddr)
	pre := e.snap()
	e.Advance(time.Second, 1)
	req := abci.RequestBeginBlock{Header: abci.Header{ProposerAddress: e.Addrs[1]}}
	BeginBlocker(e.Ctx, req, e.K)
	post := e.snap()
	total := to0.Add(to2)
	if p == "C10" || p == "C02" {
		zz.Assert(p+".rewards.supply-grows-by-awards-only", post.supply.Sub(pre.supply).Equal(total))
	}
	if p == "C10" || p == "C04" {
		zz.Assert(p+".rewards.pool-unchanged-by-awards", post.pool.Equal(pre.pool))
	}
	if p == "C10" {
		want0, want1, want2, wantPos := pre.bal[0].Add(to0), pre.bal[1], pre.bal[2].Add(to2), pre.posMod
		switch prop {
		case 0:
			want1 = want1.Add(fees)
		case 1:
			want0 = want0.Add(fees)
		case 2:
			wantPos = wantPos.Add(fees)
		}
		zz.Assert("C10.fees.to-previous-proposer-once", post.bal[0].Equal(want0) && post.bal[1].Equal(want1) && post.bal[2].Equal(want2) && post.posMod.Equal(wantPos))
		zz.Assert("C10.fees.collector-emptied", post.fee.IsZero())
		zz.Assert("C10.awards.queue-emptied", len(vPrefixKeys(e, types.AwardValidatorKey)) == 0)
		zz.Assert("C10.proposer-recorded-after-payment", e.K.GetPreviousProposer(e.Ctx).Equals(e.Addrs[1]))
		// a second BeginBlock pays nothing more
		e.Advance(time.Second, 1)
		BeginBlocker(e.Ctx, req, e.K)
		again := e.snap()
		zz.Assert("C10.second-begin-block-pays-nothing", again.supply.Equal(post.supply) && again.bal[0].Equal(post.bal[0]) && again.bal[1].Equal(post.bal[1]) && again.bal[2].Equal(post.bal[2]) && again.posMod.Equal(post.posMod))
	}
	e.invariants(p + ".rewards")
	zz.Reach(p + ".rewards")
}

func VerifC10_Rewards() { vRewards("C10") }
func VerifC02_Rewards() { vRewards("C02") }
func VerifC04_Rewards() { vRewards("C04") }

// vStakeMoves: stake (new / re-stake after forced unstake), begin-unstake, maturity at EndBlock, forced unstake:
// tokens only move between the account and the pool, by exactly the staked / recorded amount.
func vStakeMoves(p string) {
	e, stage, stake0 := vSetup(3)
	pre := e.snap()
	op := zz.Choice("op", 4)
	switch op {
	case 0: // account 2 stakes as a new validator with a symbolic amount
		amt := VSymInt("amt", 1000000, 5000000)
		e.Stake(2, amt)
		post := e.snap()
		zz.Assert(p+".stake.moves-exact-amount", pre.bal[2].Sub(post.bal[2]).Equal(amt) && post.pool.Sub(pre.pool).Equal(amt) && post.stake[2].Equal(amt))
		zz.Assert(p+".stake.supply-unchanged", post.supply.Equal(pre.supply))
	case 1: // begin unstaking (if staked) then mature: whole recorded stake comes back
		v, _ := e.Val(0)
		if v.Status == sdk.Staked {
			if err := e.K.BeginUnstakingValidator(e.Ctx, v); err != nil {
				panic(err)
			}
		}
		mid := e.snap()
		zz.Assert(p+".begin-unstake.moves-nothing", mid.pool.Equal(pre.pool) && mid.bal[0].Equal(pre.bal[0]) && mid.supply.Equal(pre.supply))
		e.Advance(e.K.UnStakingTime(e.Ctx), 10)
		EndBlocker(e.Ctx, e.K)
		post := e.snap()
		zz.Assert(p+".finish-unstake.returns-recorded-stake", post.bal[0].Sub(pre.bal[0]).Equal(stake0) && pre.pool.Sub(post.pool).Equal(stake0) && !post.found[0])
		zz.Assert(p+".finish-unstake.supply-unchanged", post.supply.Equal(pre.supply))
	case 2: // forced unstake burns the recorded stake
		v, _ := e.Val(0)
		err := e.K.ForceValidatorUnstake(e.Ctx, v)
		post := e.snap()
		if err == nil {
			zz.Assert(p+".force-unstake.burns-recorded-stake", pre.pool.Sub(post.pool).Equal(stake0) && pre.supply.Sub(post.supply).Equal(stake0) && post.bal[0].Equal(pre.bal[0]) && post.status[0] == sdk.Unstaked && post.stake[0].IsZero())
		}
	case 3: // forced unstake, then the same validator stakes again
		v, _ := e.Val(0)
		if err := e.K.ForceValidatorUnstake(e.Ctx, v); err != nil {
			panic(err)
		}
		mid := e.snap()
		amt := VSymInt("amt", 1000000, 1<<60)
		zz.Assume(amt.LTE(mid.bal[0]))
		v, _ = e.Val(0)
		if e.K.ValidateValidatorStaking(e.Ctx, v, amt) == nil {
			e.K.StakeValidator(e.Ctx, v, amt)
			post := e.snap()
			zz.Assert(p+".restake.moves-exact-amount", mid.bal[0].Sub(post.bal[0]).Equal(amt) && post.pool.Sub(mid.pool).Equal(amt) && post.stake[0].Equal(amt) && post.supply.Equal(mid.supply))
		}
	}
	_ = stage
	e.invariants(p + ".moves")
	zz.Reach(p + ".moves")
}

func VerifC04_StakeMoves() { vStakeMoves("C04") }
func VerifC02_StakeMoves() { vStakeMoves("C02") }

// vSend: SendCoins between any two of {account 0, account 1, account 2, staked pool address}, including a transfer
// to oneself, with amounts from zero to more than the balance: conservation, exact deltas, no overdraft.
func vSend(p string) {
	e := VNewEnv(3)
	b0 := VSymInt("b0", 0, 1<<60)
	b1 := VSymInt("b1", 0, 1<<60)
	e.Fund(e.Addrs[0], b0)
	e.Fund(e.Addrs[1], b1)
	addrs := []sdk.Address{e.Addrs[0], e.Addrs[1], e.Addrs[2], e.AK.GetModuleAddress(types.StakedPoolName)}
	from := zz.Choice("from", 2)
	to := zz.Choice("to", 4)
	amt := VSymInt("amt", 0, 1<<61)
	preFrom, preTo := e.Bal(addrs[from]), e.Bal(addrs[to])
	preSupply := e.Supply()
	var err sdk.Error
	if amt.IsZero() {
		err = e.AK.SendCoins(e.Ctx, addrs[from], addrs[to], sdk.NewCoins())
	} else {
		err = e.AK.SendCoins(e.Ctx, addrs[from], addrs[to], VCoins(amt))
	}
	postFrom, postTo := e.Bal(addrs[from]), e.Bal(addrs[to])
	zz.Assert(p+".send.supply-unchanged", e.Supply().Equal(preSupply) && e.SumBalances().Equal(preSupply))
	if err != nil {
		zz.Assert(p+".send.refused-only-on-overdraft", amt.GT(preFrom))
		zz.Assert(p+".send.refused-changes-nothing", postFrom.Equal(preFrom) && postTo.Equal(preTo))
	} else {
		zz.Assert(p+".send.no-overdraft", amt.LTE(preFrom))
		if from == to {
			zz.Assert(p+".send.self-transfer-neutral", postFrom.Equal(preFrom))
		} else {
			zz.Assert(p+".send.exact-deltas", preFrom.Sub(postFrom).Equal(amt) && postTo.Sub(preTo).Equal(amt))
		}
	}
	zz.Assert(p+".send.no-negative", !postFrom.IsNegative() && !postTo.IsNegative())
	zz.Reach(p + ".send")
}

func VerifC02_Send() { vSend("C02") }

// VerifC02_SendForeignDenom: a payment in a denomination the payer does not hold - one that sorts before or after the
// staking token - is refused and creates nothing: no balance of any denomination changes and the per-denomination
// sum of balances still equals the recorded supply.
func VerifC02_SendForeignDenom() {
	e := VNewEnv(2)
	b0 := VSymInt("b0", 0, 1<<60)
	e.Fund(e.Addrs[0], b0)
	e.Fund(e.Addrs[1], sdk.NewInt(5))
	denom := []string{"aaa", "zzz"}[zz.Choice("foreign_denom", 2)]
	amt := VSymInt("amt", 1, 1<<60)
	pay := sdk.NewCoins(sdk.NewCoin(denom, amt))
	if zz.Choice("mixed", 2) == 1 && b0.IsPositive() {
		pay = pay.Add(VCoins(sdk.NewInt(1))) // together with one unit of a denomination the payer does hold
	}
	pre0, pre1 := e.AK.GetCoins(e.Ctx, e.Addrs[0]), e.AK.GetCoins(e.Ctx, e.Addrs[1])
	var err sdk.Error
	if zz.Choice("via", 2) == 0 {
		err = e.AK.SendCoins(e.Ctx, e.Addrs[0], e.Addrs[1], pay)
	} else {
		err = e.AK.SendCoinsFromAccountToModule(e.Ctx, e.Addrs[0], auth.FeeCollectorName, pay)
	}
	post0, post1 := e.AK.GetCoins(e.Ctx, e.Addrs[0]), e.AK.GetCoins(e.Ctx, e.Addrs[1])
	zz.Assert("C02.foreign.payment-in-a-denomination-not-held-is-refused", err != nil)
	zz.Assert("C02.foreign.nothing-created", post0.AmountOf(denom).IsZero() && post1.AmountOf(denom).IsZero() && e.ModBal(auth.FeeCollectorName).IsZero() &&
		e.AK.GetModuleAccount(e.Ctx, auth.FeeCollectorName).GetCoins().AmountOf(denom).IsZero() &&
		post0.AmountOf(VDenom).Equal(pre0.AmountOf(VDenom)) && post1.AmountOf(VDenom).Equal(pre1.AmountOf(VDenom)))
	zz.Assert("C02.foreign.supply-still-sum-of-balances", e.Supply().Equal(e.SumBalances()) && e.AK.GetSupply(e.Ctx).GetTotal().AmountOf(denom).IsZero())
	zz.Reach("C02.foreign.end")
}
