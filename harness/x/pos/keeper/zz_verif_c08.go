package keeper

import (
	"math/big"
	"time"

	abci "github.com/tendermint/tendermint/abci/types"

	sdk "github.com/pokt-network/posmint/types"
	"github.com/pokt-network/posmint/x/pos/types"
	zz "github.com/pokt-network/posmint/zzverif"
)

func vMinSigned(name string) sdk.Dec {
	s := func(v string) sdk.Dec { r, _ := new(big.Int).SetString(v, 10); return sdk.Dec{Int: r} }
	set := []sdk.Dec{s("500000000000000000"), s("0"), s("50000000000000000"), s("333333333333333333"), s("750000000000000000"), s("1000000000000000000")}
	return set[zz.Choice(name, len(set))]
}

// vRoundHalfEven returns round-half-even(F*W / 10^18) computed with plain integers.
func vRoundHalfEven(f sdk.Dec, w int64) int64 {
	one := new(big.Int).Exp(big.NewInt(10), big.NewInt(18), nil)
	p := new(big.Int).Mul(f.Int, big.NewInt(w))
	q, r := new(big.Int).QuoRem(p, one, new(big.Int))
	twice := new(big.Int).Lsh(r, 1)
	switch twice.Cmp(one) {
	case 1:
		q.Add(q, big.NewInt(1))
	case 0:
		if q.Bit(0) == 1 {
			q.Add(q, big.NewInt(1))
		}
	}
	return q.Int64()
}

func vSetWindowParams(e *VEnv, w int64, minSigned sdk.Dec) {
	p := e.K.GetParams(e.Ctx)
	p.SignedBlocksWindow = w
	p.MinSignedPerWindow = minSigned
	e.K.SetParams(e.Ctx, p)
}

func vCountMissed(e *VEnv, addr sdk.Address, w int64) (n int64, cells []bool) {
	for i := int64(0); i < w; i++ {
		m := e.K.getMissedBlockArray(e.Ctx, addr, i)
		cells = append(cells, m)
		if m {
			n++
		}
	}
	return
}

// VerifC08_Step: one vote from an arbitrary consistent window state (counter == number of missed cells).
func VerifC08_Step() {
	e := VNewEnv(2)
	w := int64(1 + zz.Choice("window", 3))
	if zz.Thorough() {
		w = int64(1 + zz.Choice("window4", 4))
	}
	minSigned := vMinSigned("minsigned")
	vSetWindowParams(e, w, minSigned)
	e.Fund(e.Addrs[0], sdk.NewInt(50000000))
	e.Fund(e.Addrs[1], sdk.NewInt(50000000))
	e.Stake(1, sdk.NewInt(20000000))
	e.Stake(0, sdk.NewInt(10000000))
	vstage := zz.Choice("vstage", 4) // 0 staked, 1 jailed, 2 unstaking, 3 validator record gone (matured)
	switch vstage {
	case 1:
		e.K.JailValidator(e.Ctx, e.Addrs[0])
	case 2:
		v, _ := e.Val(0)
		_ = e.K.BeginUnstakingValidator(e.Ctx, v)
	case 3:
		e.K.DeleteValidator(e.Ctx, e.Addrs[0])
	}
	// arbitrary window content
	start := zz.Int64("start", 0, 50)
	offset := zz.Int64("offset", 0, 1000)
	var ring []bool
	var counter int64
	for i := int64(0); i < w; i++ {
		switch zz.Choice("cell", 3) {
		case 0: // never written
			ring = append(ring, false)
		case 1:
			e.K.SetMissedBlockArray(e.Ctx, e.Addrs[0], i, false)
			ring = append(ring, false)
		case 2:
			e.K.SetMissedBlockArray(e.Ctx, e.Addrs[0], i, true)
			ring = append(ring, true)
			counter++
		}
	}
	e.K.SetValidatorSigningInfo(e.Ctx, e.Addrs[0], types.ValidatorSigningInfo{Address: e.Addrs[0], StartHeight: start, IndexOffset: offset, JailedUntil: time.Unix(0, 0), MissedBlocksCounter: counter})
	height := zz.Int64("height", 1, 200)
	e.Ctx = e.Ctx.WithBlockHeight(height)
	signed := zz.Bool("signed")
	preStake := sdk.ZeroInt()
	if v, ok := e.Val(0); ok {
		preStake = v.StakedTokens
	}
	e.K.handleValidatorSignature(e.Ctx, []byte(e.Addrs[0]), 10, signed)

	// reference
	idx := offset % w
	ring[idx] = !signed
	var want int64
	for _, m := range ring {
		if m {
			want++
		}
	}
	maxMissed := w - vRoundHalfEven(minSigned, w)
	exists := vstage != 3
	jailedBefore := vstage == 1
	punish := height > start+w && want > maxMissed && exists && !jailedBefore
	info, _ := e.K.GetValidatorSigningInfo(e.Ctx, e.Addrs[0])
	got, cells := vCountMissed(e, e.Addrs[0], w)
	if punish {
		v, _ := e.Val(0)
		zz.Assert("C08.step.punished-is-jailed-and-slashed", v.Jailed && v.StakedTokens.LTE(preStake))
		zz.Assert("C08.step.punish-resets-window", info.MissedBlocksCounter == 0 && info.IndexOffset == 0 && got == 0 && len(vPrefixKeys(e, types.GetValMissedBlockPrefixKey(e.Addrs[0]))) == 0)
		zz.Assert("C08.step.jailed-until", info.JailedUntil.Equal(e.Ctx.BlockHeader().Time.Add(e.K.DowntimeJailDuration(e.Ctx))))
	} else {
		same := true
		for i := range ring {
			if ring[i] != cells[i] {
				same = false
			}
		}
		zz.Assert("C08.step.counter-equals-window", info.MissedBlocksCounter == want && got == want && same)
		zz.Assert("C08.step.offset-advances", info.IndexOffset == offset+1)
		if exists {
			v, _ := e.Val(0)
			zz.Assert("C08.step.not-punished-early-or-twice", v.Jailed == jailedBefore && v.StakedTokens.Equal(preStake))
		}
	}
	zz.Reach("C08.step")
}

// VerifC08_History: from a freshly staked validator, a bounded history of votes with symbolic signed/missed bits:
// the counter tracks the sliding window exactly and the validator is punished at exactly the first qualifying block.
func VerifC08_History() {
	e := VNewEnv(2)
	w := int64(1 + zz.Choice("window", 3))
	minSigned := vMinSigned("minsigned")
	vSetWindowParams(e, w, minSigned)
	e.Fund(e.Addrs[0], sdk.NewInt(50000000))
	startHeight := e.Ctx.BlockHeight()
	e.Stake(0, sdk.NewInt(10000000))
	maxMissed := w - vRoundHalfEven(minSigned, w)
	n := int(w) + 3
	var hist []bool // missed?
	jailed := false
	for step := 0; step < n; step++ {
		e.Advance(time.Second, 1)
		signed := zz.Bool("signed")
		e.K.handleValidatorSignature(e.Ctx, []byte(e.Addrs[0]), 10, signed)
		if !jailed {
			hist = append(hist, !signed)
		}
		// ghost: misses among the last min(len,W) recorded votes
		var want int64
		lo := len(hist) - int(w)
		if lo < 0 {
			lo = 0
		}
		for _, m := range hist[lo:] {
			if m {
				want++
			}
		}
		info, _ := e.K.GetValidatorSigningInfo(e.Ctx, e.Addrs[0])
		v, _ := e.Val(0)
		if jailed {
			// already jailed: never punished again, votes still recorded by the module but no further slash
			zz.Assert("C08.history.no-second-punishment", v.StakedTokens.Equal(sdk.NewInt(9900000)))
			continue
		}
		shouldPunish := e.Ctx.BlockHeight() > startHeight+w && want > maxMissed
		if shouldPunish {
			zz.Assert("C08.history.punished-at-first-qualifying-block", v.Jailed && v.StakedTokens.Equal(sdk.NewInt(9900000)) && info.MissedBlocksCounter == 0)
			jailed = true
			hist = nil
		} else {
			zz.Assert("C08.history.not-punished-before", !v.Jailed && v.StakedTokens.Equal(sdk.NewInt(10000000)))
			zz.Assert("C08.history.counter-is-window-count", info.MissedBlocksCounter == want)
		}
	}
	zz.Reach("C08.history")
}

// VerifC08_AcrossJail: downtime jailing, further votes while jailed, unjail, more votes: after every step the stored
// counter equals the number of missed entries in the stored window, and the validator is punished again only when the
// window (which was cleared by the jailing) fills up again.
func VerifC08_AcrossJail() {
	e := VNewEnv(2)
	w := int64(2 + zz.Choice("window", 2))
	minSigned := vMinSigned("minsigned")
	vSetWindowParams(e, w, minSigned)
	e.Fund(e.Addrs[0], sdk.NewInt(50000000))
	e.Stake(0, sdk.NewInt(10000000))
	maxMissed := w - vRoundHalfEven(minSigned, w)
	zz.Assume(maxMissed < w) // otherwise nobody is ever jailed
	check := func(tag string) {
		info, _ := e.K.GetValidatorSigningInfo(e.Ctx, e.Addrs[0])
		n, _ := vCountMissed(e, e.Addrs[0], w)
		zz.Assert("C08.jail."+tag+".counter-equals-stored-window", info.MissedBlocksCounter == n)
	}
	// miss every block until jailed
	jailedAt := -1
	for step := 0; step < int(2*w)+2; step++ {
		e.Advance(time.Second, 1)
		e.K.handleValidatorSignature(e.Ctx, []byte(e.Addrs[0]), 10, false)
		check("filling")
		if v, _ := e.Val(0); v.Jailed {
			jailedAt = step
			break
		}
	}
	zz.Assert("C08.jail.eventually-jailed", jailedAt >= 0)
	// votes that still arrive while jailed (validator update delay)
	for k := 0; k < 1+zz.Choice("while_jailed", 2); k++ {
		e.Advance(time.Second, 1)
		e.K.handleValidatorSignature(e.Ctx, []byte(e.Addrs[0]), 10, zz.Bool("signed_while_jailed"))
		check("while-jailed")
	}
	stakeAfterFirst := sdk.ZeroInt()
	if v, ok := e.Val(0); ok {
		stakeAfterFirst = v.StakedTokens
	}
	e.Advance(e.K.DowntimeJailDuration(e.Ctx), 1)
	e.K.UnjailValidator(e.Ctx, e.Addrs[0])
	check("after-unjail")
	for k := 0; k < int(w)+1; k++ {
		e.Advance(time.Second, 1)
		e.K.handleValidatorSignature(e.Ctx, []byte(e.Addrs[0]), 10, zz.Bool("signed_after"))
		check("after")
	}
	_ = stakeAfterFirst
	zz.Reach("C08.across-jail")
}

// VerifC07_DowntimeSlash: the downtime punishment burns exactly min(trunc(p * 10^6 * f_downtime), stake) for the power p
// REPORTED by the vote (larger or smaller than the validator's current power), from stake, pool and supply alike.
func VerifC07_DowntimeSlash() {
	e := VNewEnv(2)
	vSetWindowParams(e, 1, sdk.Dec{Int: big.NewInt(1000000000000000000)}) // window 1, every block must be signed
	e.Fund(e.Addrs[1], sdk.NewInt(50000000))
	e.Stake(1, sdk.NewInt(20000000))
	stake := VSymInt("stake0", 1000000, 1<<50)
	e.Fund(e.Addrs[0], stake)
	e.Stake(0, stake)
	frac := vFraction("downtime_fraction")
	p := e.K.GetParams(e.Ctx)
	p.SlashFractionDowntime = frac
	e.K.SetParams(e.Ctx, p)
	e.K.SetValidatorSigningInfo(e.Ctx, e.Addrs[0], types.ValidatorSigningInfo{Address: e.Addrs[0], StartHeight: 0, JailedUntil: time.Unix(0, 0)})
	e.Ctx = e.Ctx.WithBlockHeight(50)
	power := zz.Int64("reported_power", 0, 1<<60)
	pre := e.snap()
	e.K.handleValidatorSignature(e.Ctx, []byte(e.Addrs[0]), power, false)
	post := e.snap()
	v, found := e.Val(0)
	zz.Assert("C07.downtime.jailed", found && v.Jailed)
	burned := new(big.Int).Sub(pre.supply.BigInt(), post.supply.BigInt())
	min := sdk.NewInt(e.K.MinimumStake(e.Ctx))
	if post.status[0] == sdk.Unstaked {
		// fell below the minimum: force-unstaked, the remainder burned as well
		zz.Assert("C07.downtime.below-minimum-burns-whole-stake", burned.Cmp(pre.stake[0].BigInt()) == 0 && post.stake[0].IsZero())
		rem := new(big.Int).Sub(pre.stake[0].BigInt(), vExactBurnAmount(power, frac, pre.stake[0].BigInt()))
		zz.Assert("C07.downtime.force-unstake-only-below-minimum", rem.Cmp(min.BigInt()) < 0)
	} else {
		zz.Assert("C07.downtime.exact-amount-for-reported-power", vExactBurnOK(power, frac, pre.stake[0].BigInt(), burned))
		zz.Assert("C07.downtime.stake-reduced-by-burn", new(big.Int).Sub(pre.stake[0].BigInt(), post.stake[0].BigInt()).Cmp(burned) == 0 && post.stake[0].GTE(min))
	}
	zz.Assert("C07.downtime.pool-and-supply-move-together", pre.pool.Sub(post.pool).BigInt().Cmp(burned) == 0 && post.bal[0].Equal(pre.bal[0]) && post.bal[1].Equal(pre.bal[1]) && post.stake[1].Equal(pre.stake[1]))
	e.invariants("C07.downtime")
	zz.Reach("C07.downtime.end")
}

// vExactBurnAmount: min(trunc(p*10^6*F/10^18), stake) with plain integers.
func vExactBurnAmount(power int64, frac sdk.Dec, stake *big.Int) *big.Int {
	prod := new(big.Int).Mul(new(big.Int).Mul(big.NewInt(power), big.NewInt(1000000)), frac.Int)
	a := new(big.Int).Quo(prod, new(big.Int).Exp(big.NewInt(10), big.NewInt(18), nil))
	if a.Cmp(stake) > 0 {
		return new(big.Int).Set(stake)
	}
	return a
}

// VerifC07_CustomBurns: one to three custom burns queued for the same validator during a block (BurnValidator) are
// applied together at the next BeginBlock: exactly min(trunc(p * 10^6 * (f1+f2+f3)), stake) for its current power p is
// burned from stake, pool and supply, the queue is emptied, and a second BeginBlock burns nothing more.
func VerifC07_CustomBurns() {
	e := VNewEnv(2)
	e.Fund(e.Addrs[1], sdk.NewInt(50000000))
	e.Stake(1, sdk.NewInt(20000000))
	stake := VSymInt("stake0", 1000000, 1<<50)
	e.Fund(e.Addrs[0], stake)
	e.Stake(0, stake)
	e.K.SetPreviousProposer(e.Ctx, e.Addrs[1])
	n := 1 + zz.Choice("burns", 3)
	sum := sdk.ZeroDec()
	fr := []sdk.Dec{sdk.NewDecWithPrec(1, 2), sdk.NewDecWithPrec(25, 2), sdk.NewDecWithPrec(6, 1)}
	for j := 0; j < n; j++ {
		f := fr[zz.Choice("severity", 3)]
		e.K.BurnValidator(e.Ctx, e.Addrs[0], f)
		sum = sum.Add(f)
	}
	v, _ := e.Val(0)
	power := v.ConsensusPower()
	pre := e.snap()
	e.Advance(time.Second, 1)
	BeginBlocker(e.Ctx, abci.RequestBeginBlock{Header: abci.Header{ProposerAddress: e.Addrs[1]}}, e.K)
	post := e.snap()
	burned := new(big.Int).Sub(pre.supply.BigInt(), post.supply.BigInt())
	want := vExactBurnAmount(power, sum, pre.stake[0].BigInt())
	min := sdk.NewInt(e.K.MinimumStake(e.Ctx))
	rem := new(big.Int).Sub(pre.stake[0].BigInt(), want)
	if rem.Cmp(min.BigInt()) < 0 {
		zz.Assert("C07.customburn.below-minimum-burns-whole-stake", burned.Cmp(pre.stake[0].BigInt()) == 0 && post.status[0] == sdk.Unstaked)
	} else {
		zz.Assert("C07.customburn.sum-of-queued-fractions", burned.Cmp(want) == 0 && new(big.Int).Sub(pre.stake[0].BigInt(), post.stake[0].BigInt()).Cmp(want) == 0)
	}
	zz.Assert("C07.customburn.pool-and-supply-move-together", pre.pool.Sub(post.pool).BigInt().Cmp(burned) == 0 && post.stake[1].Equal(pre.stake[1]) && post.bal[0].Equal(pre.bal[0]))
	zz.Assert("C07.customburn.queue-emptied", len(vPrefixKeys(e, types.BurnValidatorKey)) == 0)
	e.Advance(time.Second, 1)
	BeginBlocker(e.Ctx, abci.RequestBeginBlock{Header: abci.Header{ProposerAddress: e.Addrs[1]}}, e.K)
	again := e.snap()
	zz.Assert("C07.customburn.applied-once", again.supply.Equal(post.supply) && again.stake[0].Equal(post.stake[0]))
	e.invariants("C07.customburn")
	zz.Reach("C07.customburn.end")
}

// VerifC08_LargeWindowClear: with a large (non-default) SignedBlocksWindow, jailing for downtime clears EVERY slot of
// the window - slots at small, byte-boundary (255/256, 65535/65536) and last indices alike - so that the counter (0)
// equals the window afterwards.
func VerifC08_LargeWindowClear() {
	e := VNewEnv(2)
	w := []int64{100, 300, 70000}[zz.Choice("window", 3)]
	vSetWindowParams(e, w, sdk.NewDecWithPrec(5, 1))
	e.Fund(e.Addrs[0], sdk.NewInt(50000000))
	e.Stake(0, sdk.NewInt(10000000))
	idxs := []int64{0, 1, 44, 45, 99, 255, 256, 257, 299, 65535, 65536, 69999}
	var used []int64
	for _, ix := range idxs {
		if ix < w {
			e.K.SetMissedBlockArray(e.Ctx, e.Addrs[0], ix, true)
			used = append(used, ix)
		}
	}
	e.K.SetValidatorSigningInfo(e.Ctx, e.Addrs[0], types.ValidatorSigningInfo{Address: e.Addrs[0], StartHeight: 0, IndexOffset: 7, JailedUntil: time.Unix(0, 0), MissedBlocksCounter: w}) // over the threshold
	e.Ctx = e.Ctx.WithBlockHeight(w + 10)
	e.K.handleValidatorSignature(e.Ctx, []byte(e.Addrs[0]), 10, false)
	v, _ := e.Val(0)
	zz.Assert("C08.largewindow.jailed", v.Jailed)
	info, _ := e.K.GetValidatorSigningInfo(e.Ctx, e.Addrs[0])
	left := 0
	for _, ix := range idxs {
		if ix < w && e.K.getMissedBlockArray(e.Ctx, e.Addrs[0], ix) {
			left++
		}
	}
	zz.Assert("C08.largewindow.jailing-clears-every-slot", left == 0 && info.MissedBlocksCounter == 0 && len(vPrefixKeys(e, types.GetValMissedBlockPrefixKey(e.Addrs[0]))) == 0)
	_ = used
	zz.Reach("C08.largewindow.end")
}

// VerifC08_UnstakeAndRestake: a validator with some (sub-threshold) misses in its window unstakes, matures and is
// removed, then stakes again with the same key and goes on voting: after every vote its missed-blocks counter still
// equals the number of missed entries in its window.
func VerifC08_UnstakeAndRestake() {
	e := VNewEnv(2)
	const w = 4
	vSetWindowParams(e, w, sdk.NewDecWithPrec(25, 2)) // up to 3 misses per window tolerated
	e.Fund(e.Addrs[0], sdk.NewInt(50000000))
	e.Fund(e.Addrs[1], sdk.NewInt(50000000))
	e.Stake(1, sdk.NewInt(20000000))
	e.Stake(0, sdk.NewInt(10000000))
	check := func(tag string) {
		info, ok := e.K.GetValidatorSigningInfo(e.Ctx, e.Addrs[0])
		if !ok {
			return
		}
		n, _ := vCountMissed(e, e.Addrs[0], w)
		zz.Assert("C08.restake."+tag+".counter-equals-window", info.MissedBlocksCounter == n)
	}
	for b := 0; b < 2; b++ {
		e.Advance(time.Second, 1)
		e.K.handleValidatorSignature(e.Ctx, []byte(e.Addrs[0]), 10, zz.Bool("signed_before"))
		check("before")
	}
	v, _ := e.Val(0)
	if err := e.K.BeginUnstakingValidator(e.Ctx, v); err != nil {
		panic(err)
	}
	e.Advance(e.K.UnStakingTime(e.Ctx), 1)
	EndBlocker(e.Ctx, e.K)
	_, still := e.Val(0)
	zz.Assert("C08.restake.matured-and-removed", !still)
	e.Stake(0, sdk.NewInt(10000000))
	check("after-restake")
	for b := 0; b < 3; b++ {
		e.Advance(time.Second, 1)
		e.K.handleValidatorSignature(e.Ctx, []byte(e.Addrs[0]), 10, zz.Bool("signed_after"))
		check("after")
	}
	zz.Reach("C08.restake.end")
}

// VerifC07_BurnAgainstUnstaked: a custom burn queued against a validator that is unstaked (record present) burns
// nothing - not at the next BeginBlock and not later, after the validator has staked again.
func VerifC07_BurnAgainstUnstaked() {
	e := VNewEnv(2)
	e.Fund(e.Addrs[1], sdk.NewInt(50000000))
	e.Stake(1, sdk.NewInt(20000000))
	e.Fund(e.Addrs[0], sdk.NewInt(50000000))
	e.Stake(0, sdk.NewInt(10000000))
	e.K.SetPreviousProposer(e.Ctx, e.Addrs[1])
	v, _ := e.Val(0)
	if err := e.K.ForceValidatorUnstake(e.Ctx, v); err != nil {
		panic(err)
	}
	e.K.BurnValidator(e.Ctx, e.Addrs[0], sdk.NewDecWithPrec(5, 1))
	pre := e.snap()
	req := abci.RequestBeginBlock{Header: abci.Header{ProposerAddress: e.Addrs[1]}}
	e.Advance(time.Second, 1)
	BeginBlocker(e.Ctx, req, e.K)
	mid := e.snap()
	zz.Assert("C07.burn-unstaked.burns-nothing", mid.supply.Equal(pre.supply) && mid.pool.Equal(pre.pool))
	// the validator stakes again; no slash is due
	amt := VSymInt("restake", 1000000, 20000000)
	vv, _ := e.Val(0)
	if e.K.ValidateValidatorStaking(e.Ctx, vv, amt) == nil {
		e.K.StakeValidator(e.Ctx, vv, amt)
		staked := e.snap()
		e.Advance(time.Second, 1)
		BeginBlocker(e.Ctx, req, e.K)
		post := e.snap()
		zz.Assert("C07.burn-unstaked.nothing-burned-after-restake", post.supply.Equal(staked.supply) && post.pool.Equal(staked.pool) && post.stake[0].Equal(staked.stake[0]))
	}
	zz.Reach("C07.burn-unstaked.end")
}
