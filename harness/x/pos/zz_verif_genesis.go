package pos

import (
	"time"

	sdk "github.com/pokt-network/posmint/types"
	"github.com/pokt-network/posmint/x/auth"
	authtypes "github.com/pokt-network/posmint/x/auth/types"
	"github.com/pokt-network/posmint/x/pos/keeper"
	"github.com/pokt-network/posmint/x/pos/types"
	zz "github.com/pokt-network/posmint/zzverif"
)

// vGenesis: a chain started from a genesis file: pos.InitGenesis (validators, pool) then auth.InitGenesis (accounts,
// derived supply), with two validators - one staked with a symbolic stake, one staked / unstaking / staked+jailed -
// and one funded account.  Checks the genesis invariants of C02 / C04 / C05 and that an unstaking genesis validator
// can be paid out at maturity.
func vGenesis(p string) {
	e := keeper.VNewEnv(3)
	s0 := keeper.VSymInt("stake0", 1000000, 1<<50)
	s1 := keeper.VSymInt("stake1", 1000000, 1<<50)
	v0 := types.NewValidator(e.Addrs[0], e.Pubs[0], s0)
	v1 := types.NewValidator(e.Addrs[1], e.Pubs[1], s1)
	kind := zz.Choice("second_validator", 3)
	switch kind {
	case 1:
		v1.Status = sdk.Unstaking
		v1.UnstakingCompletionTime = e.Ctx.BlockHeader().Time.Add(time.Hour)
	case 2:
		v1.Jailed = true
	}
	bal2 := keeper.VSymInt("balance2", 0, 1<<50)
	acc := authtypes.NewBaseAccountWithAddress(e.Addrs[2])
	acc.Coins = keeper.VCoins(bal2)
	if bal2.IsZero() {
		acc.Coins = sdk.NewCoins()
	}
	data := types.GenesisState{Params: types.DefaultParams(), Validators: []types.Validator{v0, v1}, PrevStateTotalPower: sdk.ZeroInt()}
	updates := InitGenesis(e.Ctx, e.K, e.AK, data)
	auth.InitGenesis(e.Ctx, e.AK, authtypes.NewGenesisState(authtypes.DefaultParams(), authtypes.Accounts{&acc}))
	if p == "C04" || p == "C02" {
		zz.Assert(p+".genesis.pool-backs-staked-and-unstaking-stake", e.Pool().Equal(e.SumStake()))
		zz.Assert(p+".genesis.supply-equals-sum-of-balances", e.Supply().Equal(e.SumBalances()))
	}
	if p == "C05" {
		tm := &vTMSet{}
		zz.Assert("C05.genesis-chain.batch-applicable", tm.apply(updates) == "")
		zz.Assert("C05.genesis-chain.set-equals-top-staked", vSameSet(tm.vals, vExpectedSet(e)))
		zz.Assert("C05.genesis-chain.index-exact", vIndexExact(e))
	}
	if p == "C04" && kind == 1 {
		// the unstaking genesis validator matures: it must get its recorded stake back
		pre := e.Bal(e.Addrs[1])
		e.Advance(2*time.Hour, 5)
		panicked := false
		func() {
			defer func() {
				if r := recover(); r != nil {
					panicked = true
				}
			}()
			keeper.EndBlocker(e.Ctx, e.K)
		}()
		zz.Assert("C04.genesis.unstaking-validator-paid-at-maturity", !panicked && e.Bal(e.Addrs[1]).Sub(pre).Equal(s1))
		zz.Assert("C04.genesis.pool-after-maturity", !panicked && e.Pool().Equal(e.SumStake()))
	}
	zz.Reach(p + ".genesis")
}

func VerifC04_Genesis() { vGenesis("C04") }
func VerifC02_Genesis() { vGenesis("C02") }
func VerifC05_Genesis() { vGenesis("C05") }
