package pos

import (
	"bytes"
	"time"

	abci "github.com/tendermint/tendermint/abci/types"

	sdk "github.com/pokt-network/posmint/types"
	"github.com/pokt-network/posmint/x/pos/keeper"
	"github.com/pokt-network/posmint/x/pos/types"
	zz "github.com/pokt-network/posmint/zzverif"
)

// ---- structural invariants of the staking state (C06 / C09 / C05) ----

// vIndexExact: the power index lists exactly the staked, unjailed validators, each under the key of its current stake.
func vIndexExact(e *keeper.VEnv) bool {
	keys, vals := e.IndexEntries()
	want := 0
	ok := true
	for _, v := range e.K.GetAllValidators(e.Ctx) {
		if v.Status == sdk.Staked && !v.Jailed {
			want++
			k := types.KeyForValidatorInStakingSet(v)
			found := false
			for j := range keys {
				if bytes.Equal(keys[j], k) && bytes.Equal(vals[j], v.Address) {
					found = true
				}
			}
			if !found {
				ok = false
			}
		}
	}
	return ok && len(keys) == want
}

// vQueueCovers: every unstaking validator is queued at its completion time (the statement asks for coverage only;
// stale entries are not a violation by themselves - their effect is checked by VerifC06_Requeue).
func vQueueCovers(e *keeper.VEnv) bool {
	ok := true
	for _, v := range e.K.GetAllValidators(e.Ctx) {
		if v.Status == sdk.Unstaking {
			if !e.QueueHas(v.UnstakingCompletionTime, v.Address) {
				ok = false
			}
		}
	}
	return ok
}

func vMinStakeHeld(e *keeper.VEnv) bool {
	min := sdk.NewInt(e.K.MinimumStake(e.Ctx))
	for _, v := range e.K.GetAllValidators(e.Ctx) {
		if v.Status != sdk.Unstaked && v.StakedTokens.LT(min) {
			return false
		}
	}
	return true
}

func vStructure(e *keeper.VEnv, p string) {
	zz.Assert(p+".index-lists-exactly-staked-unjailed", vIndexExact(e))
	zz.Assert(p+".every-unstaking-validator-is-queued", vQueueCovers(e))
	zz.Assert(p+".non-unstaked-hold-minimum", vMinStakeHeld(e))
}

const (
	sStaked = iota
	sJailed
	sUnstaking
	sJailedUnstaking
	sForceUnstaked
	sAbsent
)

// vPrepare puts validator 0 (symbolic stake) in one of the lifecycle stages through the real API.
// Validator 1 is a staked bystander.
func vPrepare(stages int) (e *keeper.VEnv, stage int, stake0 sdk.Int) {
	e = keeper.VNewEnv(3)
	e.Fund(e.Addrs[1], sdk.NewInt(30000000))
	e.Stake(1, sdk.NewInt(20000000))
	bal0 := keeper.VSymInt("bal0", 0, 1<<50)
	e.Fund(e.Addrs[0], bal0)
	stake0 = keeper.VSymInt("stake0", 1000000, 1<<50)
	stage = zz.Choice("stage", stages)
	if stage == sAbsent {
		return
	}
	zz.Assume(stake0.LTE(bal0))
	e.Stake(0, stake0)
	if stage == sJailed || stage == sJailedUnstaking {
		e.K.JailValidator(e.Ctx, e.Addrs[0])
	}
	if stage == sUnstaking || stage == sJailedUnstaking {
		v, _ := e.Val(0)
		if err := e.K.BeginUnstakingValidator(e.Ctx, v); err != nil {
			panic(err)
		}
	}
	if stage == sForceUnstaked {
		v, _ := e.Val(0)
		if err := e.K.ForceValidatorUnstake(e.Ctx, v); err != nil {
			panic(err)
		}
	}
	return
}

func vStatus(e *keeper.VEnv, i int) (sdk.StakeStatus, bool, bool) {
	v, ok := e.Val(i)
	if !ok {
		return sdk.Unstaked, false, false
	}
	return v.Status, v.Jailed, true
}

// VerifC06_Transitions: one message / slash from every stage: only legal status transitions, structure kept.
func VerifC06_Transitions() {
	e, stage, _ := vPrepare(6)
	vStructure(e, "C06.pre")
	preStatus, preJailed, preFound := vStatus(e, 0)
	preBal := e.Bal(e.Addrs[0])
	h := NewHandler(e.K)
	op := zz.Choice("op", 4)
	var res sdk.Result
	switch op {
	case 0: // stake (new or again)
		amt := keeper.VSymInt("amt", 0, 1<<50)
		res = h(e.Ctx, types.MsgStake{PubKey: e.Pubs[0], Value: amt})
		st, _, found := vStatus(e, 0)
		if res.IsOK() {
			zz.Assert("C06.stake.only-from-new-or-unstaked", (!preFound || preStatus == sdk.Unstaked) && found && st == sdk.Staked)
			zz.Assert("C06.stake.funded-and-at-least-minimum", amt.GTE(sdk.NewInt(e.K.MinimumStake(e.Ctx))) && amt.LTE(preBal))
		} else {
			zz.Assert("C06.stake.rejected-keeps-status", found == preFound && st == preStatus)
		}
	case 1: // begin unstake
		res = h(e.Ctx, types.MsgBeginUnstake{Address: e.Addrs[0]})
		st, _, found := vStatus(e, 0)
		if res.IsOK() {
			v, _ := e.Val(0)
			zz.Assert("C06.begin-unstake.only-from-staked", preFound && preStatus == sdk.Staked && st == sdk.Unstaking)
			zz.Assert("C06.begin-unstake.completion-time", v.UnstakingCompletionTime.Equal(e.Ctx.BlockHeader().Time.Add(e.K.UnStakingTime(e.Ctx))))
		} else {
			zz.Assert("C06.begin-unstake.rejected-keeps-status", found == preFound && st == preStatus)
		}
	case 2: // unjail
		res = h(e.Ctx, types.MsgUnjail{ValidatorAddr: e.Addrs[0]})
		st, jailed, found := vStatus(e, 0)
		zz.Assert("C06.unjail.never-changes-status", found == preFound && st == preStatus)
		if !res.IsOK() {
			zz.Assert("C06.unjail.rejected-keeps-jail", jailed == preJailed)
		}
	case 3: // slash with symbolic power (1% .. 100%)
		if stage == sAbsent || stage == sForceUnstaked {
			zz.Reach("C06.transitions.skip")
			return
		}
		power := zz.Int64("power", 0, 1<<40)
		frac := sdk.NewDecWithPrec(int64(1+zz.Choice("fracsel", 3)*49), 2) // 0.01, 0.50, 0.99
		_ = e.Slash(0, power, frac)
		st, _, _ := vStatus(e, 0)
		zz.Assert("C06.slash.status-kept-or-force-unstaked", st == preStatus || st == sdk.Unstaked)
	}
	vStructure(e, "C06.post")
	zz.Reach("C06.transitions")
}

// VerifC06_Maturity: an unstaking validator is removed and paid its whole remaining stake at the first EndBlock whose
// time is at or after its completion time, and never before; two validators maturing around the same instant.
func VerifC06_Maturity() {
	e := keeper.VNewEnv(3)
	e.Fund(e.Addrs[0], sdk.NewInt(9000000))
	e.Fund(e.Addrs[1], sdk.NewInt(9000000))
	stake0 := keeper.VSymInt("stake0", 1000000, 9000000)
	e.Stake(0, stake0)
	e.Stake(1, sdk.NewInt(3000000))
	h := NewHandler(e.K)
	// validator 0 begins at t0, validator 1 begins d1 nanoseconds later (0 = same instant)
	zz.Assert("C06.maturity.begin0", h(e.Ctx, types.MsgBeginUnstake{Address: e.Addrs[0]}).IsOK())
	t0 := e.Ctx.BlockHeader().Time
	d1 := zz.Int64("d1_ns", 0, 3000000000)
	e.Advance(time.Duration(d1), 1)
	zz.Assert("C06.maturity.begin1", h(e.Ctx, types.MsgBeginUnstake{Address: e.Addrs[1]}).IsOK())
	// optional slash of validator 0 while unstaking (remaining stake is what must be returned)
	if zz.Choice("slashed", 2) == 1 {
		_ = e.Slash(0, 1, sdk.NewDecWithPrec(5, 1)) // 0.5 * 10^6
	}
	v0, found0 := e.Val(0)
	remaining := sdk.ZeroInt()
	if found0 && v0.Status == sdk.Unstaking {
		remaining = v0.StakedTokens
	}
	unstaking0 := found0 && v0.Status == sdk.Unstaking
	preBal0, preBal1 := e.Bal(e.Addrs[0]), e.Bal(e.Addrs[1])
	ut := e.K.UnStakingTime(e.Ctx)
	// EndBlock at a symbolic time around the completion instants
	off := zz.Int64("endblock_offset_ns", -2000000000, 5000000000)
	tEnd := t0.Add(ut).Add(time.Duration(off))
	zz.Assume(!tEnd.Before(e.Ctx.BlockHeader().Time))
	e.Ctx = e.Ctx.WithBlockHeader(abci.Header{ChainID: "verif-chain", Height: e.Ctx.BlockHeight() + 5, Time: tEnd})
	keeper.EndBlocker(e.Ctx, e.K)
	_, still0 := e.Val(0)
	_, still1 := e.Val(1)
	if unstaking0 {
		mature0 := off >= 0
		zz.Assert("C06.maturity.v0-released-iff-due", still0 == !mature0)
		if mature0 {
			zz.Assert("C06.maturity.v0-paid-whole-remaining-stake", e.Bal(e.Addrs[0]).Sub(preBal0).Equal(remaining))
		} else {
			zz.Assert("C06.maturity.v0-not-paid-early", e.Bal(e.Addrs[0]).Equal(preBal0))
		}
	}
	mature1 := off >= d1
	zz.Assert("C06.maturity.v1-released-iff-due", still1 == !mature1)
	if mature1 {
		zz.Assert("C06.maturity.v1-paid-whole-stake", e.Bal(e.Addrs[1]).Sub(preBal1).Equal(sdk.NewInt(3000000)))
	} else {
		zz.Assert("C06.maturity.v1-not-paid-early", e.Bal(e.Addrs[1]).Equal(preBal1))
	}
	vStructure(e, "C06.maturity")
	zz.Reach("C06.maturity")
}

// VerifC06_Requeue: begin-unstake, forced unstake (slash below the minimum), stake again, begin-unstake again later:
// the validator must not be released before the completion time of its *second* unstaking.
func VerifC06_Requeue() {
	e := keeper.VNewEnv(2)
	e.Fund(e.Addrs[0], sdk.NewInt(9000000))
	e.Fund(e.Addrs[1], sdk.NewInt(9000000))
	e.Stake(1, sdk.NewInt(3000000))
	e.Stake(0, sdk.NewInt(1500000))
	h := NewHandler(e.K)
	zz.Assert("C06.requeue.begin1", h(e.Ctx, types.MsgBeginUnstake{Address: e.Addrs[0]}).IsOK())
	t1 := e.Ctx.BlockHeader().Time
	// slashed below the minimum while unstaking: forced unstake
	_ = e.Slash(0, 1, sdk.OneDec())
	v, _ := e.Val(0)
	zz.Assert("C06.requeue.force-unstaked", v.Status == sdk.Unstaked)
	// later it stakes again and begins to unstake again
	gap := zz.Int64("gap_s", 1, 100000)
	e.Advance(time.Duration(gap)*time.Second, 10)
	zz.Assert("C06.requeue.restake", h(e.Ctx, types.MsgStake{PubKey: e.Pubs[0], Value: sdk.NewInt(2000000)}).IsOK())
	zz.Assert("C06.requeue.begin2", h(e.Ctx, types.MsgBeginUnstake{Address: e.Addrs[0]}).IsOK())
	t2 := e.Ctx.BlockHeader().Time
	bal := e.Bal(e.Addrs[0])
	ut := e.K.UnStakingTime(e.Ctx)
	// an EndBlock at a symbolic time between the two completion instants (or after the second)
	off := zz.Int64("off_s", 0, 200000)
	tEnd := t1.Add(ut).Add(time.Duration(off) * time.Second)
	zz.Assume(!tEnd.Before(t2))
	e.Ctx = e.Ctx.WithBlockHeader(abci.Header{ChainID: "verif-chain", Height: e.Ctx.BlockHeight() + 5, Time: tEnd})
	keeper.EndBlocker(e.Ctx, e.K)
	due := !tEnd.Before(t2.Add(ut))
	_, still := e.Val(0)
	zz.Assert("C06.requeue.released-iff-second-completion-reached", still == !due)
	if !due {
		zz.Assert("C06.requeue.not-paid-early", e.Bal(e.Addrs[0]).Equal(bal))
	}
	zz.Reach("C06.requeue")
}
