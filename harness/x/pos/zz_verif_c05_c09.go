package pos

import (
	"bytes"
	"time"

	abci "github.com/tendermint/tendermint/abci/types"

	sdk "github.com/pokt-network/posmint/types"
	"github.com/pokt-network/posmint/x/pos/keeper"
	"github.com/pokt-network/posmint/x/pos/types"
	zz "github.com/pokt-network/posmint/zzverif"
)

// ---- reference model of Tendermint's validator set (applicability rules of ValidatorSet.UpdateWithChangeSet) ----

type vTMVal struct {
	key   []byte
	power int64
}

type vTMSet struct{ vals []vTMVal }

func (s *vTMSet) find(key []byte) int {
	for i, v := range s.vals {
		if bytes.Equal(v.key, key) {
			return i
		}
	}
	return -1
}

// apply returns "" if the batch is applicable, else the reason Tendermint would reject it.
func (s *vTMSet) apply(batch []abci.ValidatorUpdate) string {
	for i := range batch {
		if batch[i].Power < 0 {
			return "negative power"
		}
		for j := 0; j < i; j++ {
			if bytes.Equal(batch[i].PubKey.Data, batch[j].PubKey.Data) {
				return "duplicate key in one batch"
			}
		}
	}
	for _, u := range batch {
		i := s.find(u.PubKey.Data)
		if u.Power == 0 {
			if i < 0 {
				return "removal of a validator Tendermint does not have"
			}
			s.vals = append(s.vals[:i:i], s.vals[i+1:]...)
		} else if i >= 0 {
			s.vals[i].power = u.Power
		} else {
			s.vals = append(s.vals, vTMVal{append([]byte{}, u.PubKey.Data...), u.Power})
		}
	}
	return ""
}

// vExpectedSet: the MaxValidators highest-powered staked, unjailed validators (power desc, address asc).
func vExpectedSet(e *keeper.VEnv) []vTMVal {
	var cands []types.Validator
	for _, v := range e.K.GetAllValidators(e.Ctx) {
		if v.Status == sdk.Staked && !v.Jailed {
			// insertion sort by (power desc, address asc)
			j := len(cands)
			cands = append(cands, v)
			for j > 0 {
				a, b := cands[j-1], v
				pa, pb := a.ConsensusPower(), b.ConsensusPower()
				if pa > pb || (pa == pb && bytes.Compare(a.Address, b.Address) < 0) {
					break
				}
				cands[j] = cands[j-1]
				j--
			}
			cands[j] = v
		}
	}
	// the limit as stored in the parameter store (not through the keeper's own getter, which is code under test)
	var limit uint64
	e.K.Paramstore.Get(e.Ctx, types.KeyMaxValidators, &limit)
	max := int(limit)
	if len(cands) > max {
		cands = cands[:max]
	}
	var out []vTMVal
	for _, v := range cands {
		out = append(out, vTMVal{v.PublicKey.RawBytes(), v.ConsensusPower()})
	}
	return out
}

func vSameSet(a, b []vTMVal) bool {
	if len(a) != len(b) {
		return false
	}
	for _, x := range a {
		found := false
		for _, y := range b {
			if bytes.Equal(x.key, y.key) && x.power == y.power {
				found = true
			}
		}
		if !found {
			return false
		}
	}
	return true
}

func vEndBlock(e *keeper.VEnv, tm *vTMSet, p string) {
	batch := keeper.EndBlocker(e.Ctx, e.K)
	why := tm.apply(batch)
	zz.Assert(p+".batch-applicable", why == "")
	zz.Assert(p+".tendermint-set-equals-top-staked", vSameSet(tm.vals, vExpectedSet(e)))
	e.Advance(time.Second, 1)
}

func vSetMaxValidators(e *keeper.VEnv, n uint64) {
	p := e.K.GetParams(e.Ctx)
	p.MaxValidators = n
	e.K.SetParams(e.Ctx, p)
}

// VerifC05_Updates: EndBlock, one arbitrary staking-state change, EndBlock (twice): every batch applies to the model
// of Tendermint's set and leaves it equal to the top-MaxValidators staked, unjailed validators.
func VerifC05_Updates() {
	e := keeper.VNewEnv(3)
	for i := 0; i < 3; i++ {
		e.Fund(e.Addrs[i], sdk.NewInt(1<<41))
	}
	s0 := keeper.VSymInt("stake0", 1000000, 6000000)
	s1 := keeper.VSymInt("stake1", 1000000, 6000000)
	e.Stake(0, s0)
	e.Stake(1, s1)
	vSetMaxValidators(e, uint64(1+zz.Choice("maxvals", 3)))
	tm := &vTMSet{}
	vEndBlock(e, tm, "C05.genesis")
	h := NewHandler(e.K)
	switch zz.Choice("op", 8) {
	case 0: // a third validator stakes
		h(e.Ctx, types.MsgStake{PubKey: e.Pubs[2], Value: keeper.VSymInt("stake2", 1000000, 6000000)})
	case 1:
		h(e.Ctx, types.MsgBeginUnstake{Address: e.Addrs[0]})
	case 2:
		e.K.JailValidator(e.Ctx, e.Addrs[0])
	case 3: // jail, EndBlock, unjail
		e.K.JailValidator(e.Ctx, e.Addrs[0])
		vEndBlock(e, tm, "C05.jailed")
		h(e.Ctx, types.MsgUnjail{ValidatorAddr: e.Addrs[0]})
	case 4: // slash by a symbolic power (may or may not change the consensus power, may force-unstake)
		_ = e.Slash(0, zz.Int64("power", 0, 8), sdk.NewDecWithPrec(int64(1+zz.Choice("fsel", 3)*33), 2))
	case 5:
		v, _ := e.Val(0)
		_ = e.K.ForceValidatorUnstake(e.Ctx, v)
	case 6: // jail, begin unstaking, unjail (the history of known defect 3)
		e.K.JailValidator(e.Ctx, e.Addrs[0])
		h(e.Ctx, types.MsgBeginUnstake{Address: e.Addrs[0]})
		vEndBlock(e, tm, "C05.jailed-unstaking")
		h(e.Ctx, types.MsgUnjail{ValidatorAddr: e.Addrs[0]})
	case 7: // begin unstaking, slash while unstaking, maturity
		h(e.Ctx, types.MsgBeginUnstake{Address: e.Addrs[0]})
		_ = e.Slash(0, 1, sdk.NewDecWithPrec(5, 1))
		vEndBlock(e, tm, "C05.unstaking-slashed")
		e.Advance(e.K.UnStakingTime(e.Ctx), 1)
	}
	vEndBlock(e, tm, "C05.after-op")
	vEndBlock(e, tm, "C05.idle")
	zz.Assert("C05.idle-block-emits-nothing", len(keeper.EndBlocker(e.Ctx, e.K)) == 0)
	zz.Reach("C05.updates")
}

// VerifC09_Unjail: MsgUnjail from every stage, with symbolic jailed-until vs block time, tombstone flag, stake above /
// below the minimum, known / unknown sender: success only when all conditions hold; effect on the index and power.
func VerifC09_Unjail() {
	e, stage, stake0 := vPrepare(6)
	// bring validators known so far into Tendermint's set
	tm := &vTMSet{}
	tm.apply(keeper.EndBlocker(e.Ctx, e.K))
	e.Advance(time.Second, 1)
	tomb := zz.Choice("tombstoned", 2) == 1
	// jailed-until relative to the block time: whole seconds and sub-second amounts either side
	until := zz.Int64("jailed_until_offset_ns", -5000000000, 5000000000)
	if info, ok := e.SigningInfo(0); ok {
		info.Tombstoned = tomb
		info.JailedUntil = e.Ctx.BlockHeader().Time.Add(time.Duration(until))
		e.SetSigningInfo(0, info)
	}
	// optionally raise the minimum stake above the validator's stake
	raised := zz.Choice("raise_minimum", 2) == 1
	if raised {
		p := e.K.GetParams(e.Ctx)
		p.StakeMinimum = 1 << 51
		e.K.SetParams(e.Ctx, p)
	}
	sender := e.Addrs[0]
	unknownSender := zz.Choice("sender", 2) == 1
	if unknownSender {
		sender = sdk.Address(bytes.Repeat([]byte{7}, 20))
	}
	pre, preFound := e.Val(0)
	keysBefore, _ := e.IndexEntries()
	res := NewHandler(e.K)(e.Ctx, types.MsgUnjail{ValidatorAddr: sender})
	post, _ := e.Val(0)
	if res.IsOK() {
		zz.Assert("C09.unjail.success-only-when-allowed", !unknownSender && preFound && pre.Jailed && !raised && !tomb && until <= 0)
		zz.Assert("C09.unjail.clears-jail", !post.Jailed)
		if post.Status == sdk.Staked {
			batch := keeper.EndBlocker(e.Ctx, e.K)
			zz.Assert("C09.unjail.batch-applicable", tm.apply(batch) == "")
			i := tm.find(post.PublicKey.RawBytes())
			zz.Assert("C09.unjail.regains-power-of-remaining-stake", i >= 0 && tm.vals[i].power == sdk.TokensToConsensusPower(stake0))
		}
	} else {
		keysAfter, _ := e.IndexEntries()
		zz.Assert("C09.unjail.refused-changes-nothing", (!preFound || post.Jailed == pre.Jailed) && len(keysAfter) == len(keysBefore))
	}
	_ = stage
	zz.Assert("C09.index-lists-exactly-staked-unjailed", vIndexExact(e))
	zz.Reach("C09.unjail")
}

// VerifC09_JailedHasNoPower: from the update following its jailing a validator has power 0 / is absent from
// Tendermint's set until it is unjailed; jailing causes: direct jail, downtime, double sign.
func VerifC09_JailedHasNoPower() {
	e := keeper.VNewEnv(2)
	e.Fund(e.Addrs[0], sdk.NewInt(1<<41))
	e.Fund(e.Addrs[1], sdk.NewInt(1<<41))
	stake0 := keeper.VSymInt("stake0", 1000000, 1<<40)
	e.Stake(0, stake0)
	e.Stake(1, sdk.NewInt(5000000))
	tm := &vTMSet{}
	vEndBlock(e, tm, "C09.pre")
	key0 := e.Pubs[0].RawBytes()
	zz.Assert("C09.staked-has-power", tm.find(key0) >= 0)
	cause := zz.Choice("cause", 3)
	switch cause {
	case 0:
		e.K.JailValidator(e.Ctx, e.Addrs[0])
	case 1, 2: // double sign through BeginBlocker (2: the validator is already jailed, e.g. for downtime, when the evidence arrives)
		if cause == 2 {
			e.K.JailValidator(e.Ctx, e.Addrs[0])
			vEndBlock(e, tm, "C09.downtime-jailed")
		}
		e.K.SetPreviousProposer(e.Ctx, e.Addrs[1])
		req := abci.RequestBeginBlock{Header: abci.Header{ProposerAddress: e.Addrs[1]},
			ByzantineValidators: []abci.Evidence{{Type: "duplicate/vote", Validator: abci.Validator{Address: e.Addrs[0], Power: 1}, Height: e.Ctx.BlockHeight() - 1, Time: e.Ctx.BlockHeader().Time}}}
		keeper.BeginBlocker(e.Ctx, req, e.K)
	}
	vEndBlock(e, tm, "C09.after-jail")
	zz.Assert("C09.jailed-absent-from-tendermint-set", tm.find(key0) < 0)
	vEndBlock(e, tm, "C09.still-jailed")
	zz.Assert("C09.jailed-stays-absent", tm.find(key0) < 0)
	if cause >= 1 {
		info, _ := e.SigningInfo(0)
		zz.Assert("C09.double-sign-tombstones-forever", info.Tombstoned && info.JailedUntil.Equal(types.DoubleSignJailEndTime))
		// no later unjail succeeds, however far the clock advances
		e.Advance(time.Duration(zz.Int64("years", 0, 5000))*365*24*time.Hour, 1)
		res := NewHandler(e.K)(e.Ctx, types.MsgUnjail{ValidatorAddr: e.Addrs[0]})
		zz.Assert("C09.tombstoned-never-unjailed", !res.IsOK())
		// not even after staking again (the conviction burned the whole stake and left the validator unstaked)
		if zz.Choice("restake", 2) == 1 {
			st := NewHandler(e.K)(e.Ctx, types.MsgStake{PubKey: e.Pubs[0], Value: sdk.NewInt(2000000)})
			res = NewHandler(e.K)(e.Ctx, types.MsgUnjail{ValidatorAddr: e.Addrs[0]})
			zz.Assert("C09.tombstoned-never-unjailed-after-restake", !res.IsOK())
			_ = st
			batch := keeper.EndBlocker(e.Ctx, e.K)
			zz.Assert("C09.tombstoned-restake-batch-applicable", tm.apply(batch) == "")
			zz.Assert("C09.tombstoned-stays-out-of-the-set", tm.find(key0) < 0)
		}
	} else {
		res := NewHandler(e.K)(e.Ctx, types.MsgUnjail{ValidatorAddr: e.Addrs[0]})
		zz.Assert("C09.unjail-after-plain-jail", res.IsOK())
		vEndBlock(e, tm, "C09.after-unjail")
		i := tm.find(key0)
		zz.Assert("C09.unjailed-regains-exact-power", i >= 0 && tm.vals[i].power == sdk.TokensToConsensusPower(stake0))
	}
	zz.Reach("C09.jailed-no-power")
}

// VerifC01_UpdateMapOrder: determinism slice of C01: the validator-update batch is identical for every iteration
// order of Go maps (Go randomises map iteration, so two replicas may iterate differently): two validators leave the set
// in the same block while a third one changes power; the batch must be in the canonical order (changed validators by
// power desc / address asc, then removed validators by address).
func VerifC01_UpdateMapOrder() {
	e := keeper.VNewEnv(3)
	for i := 0; i < 3; i++ {
		e.Fund(e.Addrs[i], sdk.NewInt(1<<41))
	}
	e.Stake(0, keeper.VSymInt("stake0", 1000000, 4000000))
	e.Stake(1, keeper.VSymInt("stake1", 1000000, 4000000))
	e.Stake(2, sdk.NewInt(2000000))
	zz.NondetMapOrder(true)
	first := keeper.EndBlocker(e.Ctx, e.K)
	e.Advance(time.Second, 1)
	// both symbolic validators leave the set in the same block
	e.K.JailValidator(e.Ctx, e.Addrs[0])
	h := NewHandler(e.K)
	h(e.Ctx, types.MsgBeginUnstake{Address: e.Addrs[1]})
	second := keeper.EndBlocker(e.Ctx, e.K)
	zz.NondetMapOrder(false)
	zz.Assert("C01.maporder.first-batch-has-all", len(first) == 3)
	// canonical order of the first batch: power desc, address asc
	for i := 0; i+1 < len(first); i++ {
		a, b := first[i], first[i+1]
		zz.Assert("C01.maporder.updates-in-canonical-order", a.Power > b.Power || (a.Power == b.Power && vAddrLess(e, a.PubKey.Data, b.PubKey.Data)))
	}
	zz.Assert("C01.maporder.removals-present", len(second) == 2 && second[0].Power == 0 && second[1].Power == 0)
	if len(second) == 2 {
		zz.Assert("C01.maporder.removals-sorted-by-address", vAddrLess(e, second[0].PubKey.Data, second[1].PubKey.Data))
	}
	zz.Reach("C01.maporder")
}

func vAddrLess(e *keeper.VEnv, pk1, pk2 []byte) bool {
	var a1, a2 sdk.Address
	for i := range e.Pubs {
		if bytes.Equal(e.Pubs[i].RawBytes(), pk1) {
			a1 = e.Addrs[i]
		}
		if bytes.Equal(e.Pubs[i].RawBytes(), pk2) {
			a2 = e.Addrs[i]
		}
	}
	return bytes.Compare(a1, a2) < 0
}

// vC05Op: one staking-state change on validator i through the real handlers / keeper.
func vC05Op(e *keeper.VEnv, h sdk.Handler, tag string) {
	i := zz.Choice(tag+".val", 2)
	switch zz.Choice(tag+".op", 8) {
	case 0: // the third key stakes (or, staked already, tries again)
		h(e.Ctx, types.MsgStake{PubKey: e.Pubs[2], Value: sdk.NewInt(int64(1+zz.Choice(tag+".stake2", 3)) * 1500000)})
	case 1:
		h(e.Ctx, types.MsgBeginUnstake{Address: e.Addrs[i]})
	case 2:
		if v, ok := e.Val(i); ok && !v.Jailed {
			e.K.JailValidator(e.Ctx, e.Addrs[i])
		}
	case 3:
		h(e.Ctx, types.MsgUnjail{ValidatorAddr: e.Addrs[i]})
	case 4:
		if _, ok := e.Val(i); ok {
			_ = e.Slash(i, int64(zz.Choice(tag+".power", 4)), sdk.NewDecWithPrec(5, 1))
		}
	case 5:
		if v, ok := e.Val(i); ok && v.Status != sdk.Unstaked {
			_ = e.K.ForceValidatorUnstake(e.Ctx, v)
		}
	case 6: // the unstaking time passes
		e.Advance(e.K.UnStakingTime(e.Ctx), 1)
	case 7: // the validator stakes more
		if v, ok := e.Val(i); ok {
			h(e.Ctx, types.MsgStake{PubKey: v.PublicKey, Value: sdk.NewInt(1000000)})
		}
	}
}

// VerifC05_History: two staking-state changes on either of two validators (plus a third key that may join), an
// EndBlock after each: every batch applies to the model of Tendermint's set and leaves it equal to the
// top-MaxValidators staked, unjailed validators.
func VerifC05_History() { vC05History(2) }

// VerifC05T_HistoryLong (thorough tier): three changes, over two of the four stake patterns and MaxValidators 1..2.
func VerifC05T_HistoryLong() { vC05History(3) }

func vC05History(steps int) {
	e := keeper.VNewEnv(3)
	for i := 0; i < 3; i++ {
		e.Fund(e.Addrs[i], sdk.NewInt(1<<41))
	}
	// equal, adjacent or distant powers
	e.Stake(0, sdk.NewInt(3000000))
	if steps <= 2 {
		e.Stake(1, sdk.NewInt([]int64{2000000, 3000000, 3999999, 4000000}[zz.Choice("stake1", 4)]))
		vSetMaxValidators(e, uint64(1+zz.Choice("maxvals", 3)))
	} else {
		e.Stake(1, sdk.NewInt([]int64{3000000, 3999999}[zz.Choice("stake1", 2)]))
		vSetMaxValidators(e, uint64(1+zz.Choice("maxvals", 2)))
	}
	tm := &vTMSet{}
	vEndBlock(e, tm, "C05.history.genesis")
	h := NewHandler(e.K)
	for s := 0; s < steps; s++ {
		vC05Op(e, h, []string{"s1", "s2", "s3"}[s])
		vEndBlock(e, tm, "C05.history.after-op")
	}
	vEndBlock(e, tm, "C05.history.idle")
	zz.Reach("C05.history")
}

// VerifC05_SameBlock: several staking-state changes land in ONE block (two or three validators leave, join or change
// power before the same EndBlock), also with an unstaking time of zero (a legal parameter value: the unstake matures in
// the block it begins): the single batch is applicable and yields the top-MaxValidators set.
func VerifC05_SameBlock() { vSameBlock("C05") }

// VerifC09_SameBlock: the same, read for jailing: validators jailed (or otherwise removed) in one block all are absent
// from Tendermint's set after that block's update.
func VerifC09_SameBlock() { vSameBlock("C09") }

func vSameBlock(p string) {
	e := keeper.VNewEnv(3)
	for i := 0; i < 3; i++ {
		e.Fund(e.Addrs[i], sdk.NewInt(1<<41))
	}
	e.Stake(0, sdk.NewInt(3000000))
	e.Stake(1, sdk.NewInt(4000000))
	e.Stake(2, sdk.NewInt(5000000))
	vSetMaxValidators(e, uint64(2+zz.Choice("maxvals", 2)))
	if zz.Choice("unstaking_time_zero", 2) == 1 {
		p := e.K.GetParams(e.Ctx)
		p.UnstakingTime = 0
		e.K.SetParams(e.Ctx, p)
	}
	tm := &vTMSet{}
	vEndBlock(e, tm, p+".sameblock.genesis")
	h := NewHandler(e.K)
	for i := 0; i < 3; i++ {
		switch zz.Choice("change", 5) {
		case 0: // nothing
		case 1:
			h(e.Ctx, types.MsgBeginUnstake{Address: e.Addrs[i]})
		case 2:
			e.K.JailValidator(e.Ctx, e.Addrs[i])
		case 3:
			v, _ := e.Val(i)
			_ = e.K.ForceValidatorUnstake(e.Ctx, v)
		case 4:
			_ = e.Slash(i, 2, sdk.NewDecWithPrec(5, 1))
		}
	}
	vEndBlock(e, tm, p+".sameblock.after-changes")
	vEndBlock(e, tm, p+".sameblock.idle")
	zz.Reach(p + ".sameblock")
}

// VerifC05_GenesisDuplicateKey: a genesis that lists the same consensus public key twice (under different operator
// addresses) either is refused by ValidateGenesis or - if it gets through - does not make InitGenesis emit the same
// key twice in the InitChain batch.
func VerifC05_GenesisDuplicateKey() {
	e := keeper.VNewEnv(3)
	v0 := types.NewValidator(e.Addrs[0], e.Pubs[0], sdk.NewInt(3000000))
	v1 := types.NewValidator(e.Addrs[1], e.Pubs[1], sdk.NewInt(4000000))
	dup := zz.Choice("duplicate", 3)
	switch dup {
	case 1: // same consensus key, another address
		v1.PublicKey = e.Pubs[0]
	case 2: // same address and key listed twice
		v1 = v0
	}
	data := types.GenesisState{Params: types.DefaultParams(), Validators: []types.Validator{v0, v1}, PrevStateTotalPower: sdk.ZeroInt()}
	err := ValidateGenesis(data)
	if dup == 0 {
		zz.Assert("C05.genesis-dup.distinct-validators-accepted", err == nil)
	}
	if err != nil {
		zz.Reach("C05.genesis-dup.refused")
		return
	}
	updates := InitGenesis(e.Ctx, e.K, e.AK, data)
	tm := &vTMSet{}
	zz.Assert("C05.genesis-dup.initchain-batch-applicable", tm.apply(updates) == "")
	zz.Reach("C05.genesis-dup.end")
}
