package gov

import (
	"bytes"

	abci "github.com/tendermint/tendermint/abci/types"
	"github.com/tendermint/tendermint/libs/log"

	"github.com/pokt-network/posmint/codec"
	sdk "github.com/pokt-network/posmint/types"
	"github.com/pokt-network/posmint/x/auth"
	authkeeper "github.com/pokt-network/posmint/x/auth/keeper"
	authtypes "github.com/pokt-network/posmint/x/auth/types"
	"github.com/pokt-network/posmint/x/gov/keeper"
	"github.com/pokt-network/posmint/x/gov/types"
	zz "github.com/pokt-network/posmint/zzverif"
	"github.com/pokt-network/posmint/zzverif/vms"
)

type vGov struct {
	ctx        sdk.Context
	ms         *vms.MS
	k          keeper.Keeper
	ak         authkeeper.Keeper
	authSpace  sdk.Subspace
	a, b, s    sdk.Address // A owns the auth params, B owns the gov params (incl. the ACL), S is a stranger
	daoOwner   sdk.Address
	cdc        *codec.Codec
}

func vAddr(b byte) sdk.Address { return sdk.Address(bytes.Repeat([]byte{b}, 20)) }

func vNewGov() *vGov {
	g := &vGov{a: vAddr(0xA1), b: vAddr(0xB2), s: vAddr(0x53)}
	keyAcc := sdk.NewKVStoreKey(auth.StoreKey)
	keyGov := sdk.NewKVStoreKey(types.StoreKey)
	tkeyGov := sdk.NewTransientStoreKey("transient_gov")
	g.ms = vms.New(keyAcc, keyGov, tkeyGov, sdk.ParamsKey, sdk.ParamsTKey)
	g.ctx = sdk.NewContext(g.ms, abci.Header{ChainID: "verif-chain", Height: 7}, false, log.NewNopLogger())
	cdc := codec.New()
	auth.RegisterCodec(cdc)
	types.RegisterCodec(cdc)
	sdk.RegisterCodec(cdc)
	codec.RegisterCrypto(cdc)
	g.cdc = cdc
	maccPerms := map[string][]string{
		auth.FeeCollectorName: nil,
		types.DAOAccountName:  {auth.Burner, auth.Staking, auth.Minter},
		"minter":              {auth.Minter},
	}
	g.authSpace = sdk.NewSubspace(auth.DefaultParamspace)
	g.ak = authkeeper.NewKeeper(cdc, keyAcc, g.authSpace, maccPerms)
	g.ak.SetParams(g.ctx, authtypes.DefaultParams())
	g.ak.SetSupply(g.ctx, authtypes.NewSupply(sdk.NewCoins()))
	g.k = keeper.NewKeeper(cdc, keyGov, tkeyGov, types.DefaultCodespace, g.ak, g.authSpace)
	g.daoOwner = g.b
	acl := types.ACL{}
	acl.SetOwner("auth/MaxMemoCharacters", g.a)
	acl.SetOwner("auth/TxSigLimit", g.a)
	acl.SetOwner("auth/FeeMultipliers", g.a)
	acl.SetOwner("gov/acl", g.b)
	acl.SetOwner("gov/daoOwner", g.b)
	acl.SetOwner("gov/upgrade", g.b)
	g.k.SetParams(g.ctx, types.Params{ACL: acl, DAOOwner: g.daoOwner, Upgrade: types.Upgrade{}})
	return g
}

var vParamKeys = []string{"auth/MaxMemoCharacters", "auth/TxSigLimit", "auth/FeeMultipliers", "gov/acl", "gov/daoOwner", "gov/upgrade"}

// raw returns the stored raw bytes of every known parameter.
func (g *vGov) raw() [][]byte {
	var out [][]byte
	for _, k := range vParamKeys {
		sub, name := types.SplitACLKey(k)
		space, _ := g.k.GetSubspace(sub)
		out = append(out, space.GetRaw(g.ctx, []byte(name)))
	}
	return out
}

func vOwnerOf(g *vGov, key string) sdk.Address {
	switch key {
	case "auth/MaxMemoCharacters", "auth/TxSigLimit", "auth/FeeMultipliers":
		return g.a
	}
	return g.b
}

// vRun runs a gov message the way baseapp does: ValidateBasic first, then the handler; os.Exit / panics are failures.
func vRun(g *vGov, msg sdk.Msg) (ok bool, crashed bool) {
	defer func() {
		if r := recover(); r != nil {
			crashed = true
		}
	}()
	if err := msg.ValidateBasic(); err != nil {
		return false, false
	}
	res := NewHandler(g.k)(g.ctx, msg)
	return res.IsOK(), false
}

// VerifC17_ChangeParam: a parameter changes only through a MsgChangeParam of its ACL owner, and only that parameter.
func VerifC17_ChangeParam() {
	g := vNewGov()
	senders := []sdk.Address{g.a, g.b, g.s, nil}
	sender := senders[zz.Choice("sender", len(senders))]
	ki := zz.Choice("key", 8)
	var key string
	var val []byte
	newU := zz.Uint64("newvalue", 0, 1<<62)
	switch ki {
	case 0:
		key, val = "auth/MaxMemoCharacters", g.cdc.MustMarshalJSON(newU)
	case 1:
		key, val = "auth/TxSigLimit", g.cdc.MustMarshalJSON(newU)
	case 2: // take-over attempt: a new ACL that names the stranger owner of everything
		acl := types.ACL{}
		for _, k := range vParamKeys {
			acl.SetOwner(k, g.s)
		}
		key, val = "gov/acl", g.cdc.MustMarshalJSON(acl)
	case 3:
		key, val = "gov/daoOwner", g.cdc.MustMarshalJSON(g.s)
	case 4: // wrong type for the parameter: must not change anything
		key, val = "auth/MaxMemoCharacters", g.cdc.MustMarshalJSON("not a number")
	case 5: // a key the ACL does not list but that resolves to the DAO owner parameter (extra path segment): nobody owns it
		key, val = "gov/daoOwner/x", g.cdc.MustMarshalJSON(g.s)
	case 6: // likewise for the ACL itself
		acl := types.ACL{}
		for _, k := range vParamKeys {
			acl.SetOwner(k, g.s)
		}
		key, val = "gov/acl/x", g.cdc.MustMarshalJSON(acl)
	case 7: // a key of a subspace that is not registered: rejected like any key nobody owns, the node keeps running
		key, val = "bank/SendEnabled", g.cdc.MustMarshalJSON(true)
	}
	before := g.raw()
	ok, crashed := vRun(g, types.MsgChangeParam{FromAddress: sender, ParamKey: key, ParamVal: val})
	after := g.raw()
	zz.Assert("C17.param.no-crash", !crashed)
	changedOther, changedTarget := false, false
	for i, k := range vParamKeys {
		if !bytes.Equal(before[i], after[i]) {
			if k == key {
				changedTarget = true
			} else {
				changedOther = true
			}
		}
	}
	isOwner := sender != nil && sender.Equals(vOwnerOf(g, key)) && ki < 5
	zz.Assert("C17.param.only-the-addressed-parameter-changes", !changedOther)
	zz.Assert("C17.param.changes-only-for-the-acl-owner", !changedTarget || isOwner)
	if !isOwner {
		zz.Assert("C17.param.non-owner-is-rejected", !ok)
	}
	if isOwner && ki <= 1 {
		zz.Assert("C17.param.owner-change-takes-effect", ok && bytes.Equal(after[ki], val))
	}
	if ki == 4 {
		zz.Assert("C17.param.malformed-value-changes-nothing", !changedTarget)
	}
	zz.Reach("C17.param")
}

// VerifC17_HandOver: the ACL owner hands a parameter over; afterwards only the new owner can change it.
func VerifC17_HandOver() {
	g := vNewGov()
	acl := g.k.GetACL(g.ctx)
	acl.SetOwner("auth/MaxMemoCharacters", g.s)
	ok, crashed := vRun(g, types.MsgChangeParam{FromAddress: g.b, ParamKey: "gov/acl", ParamVal: g.cdc.MustMarshalJSON(acl)})
	zz.Assert("C17.handover.acl-owner-can-hand-over", ok && !crashed)
	who := []sdk.Address{g.a, g.b, g.s}[zz.Choice("who", 3)]
	newU := zz.Uint64("newvalue", 0, 1<<62)
	before := g.raw()
	ok, crashed = vRun(g, types.MsgChangeParam{FromAddress: who, ParamKey: "auth/MaxMemoCharacters", ParamVal: g.cdc.MustMarshalJSON(newU)})
	after := g.raw()
	changed := !bytes.Equal(before[0], after[0])
	zz.Assert("C17.handover.only-new-owner", !crashed && ok == who.Equals(g.s) && (changed == (who.Equals(g.s) && !bytes.Equal(before[0], g.cdc.MustMarshalJSON(newU)))))
	zz.Reach("C17.handover")
}

// VerifC17_DAO: DAO funds move only on a message of the DAO owner, by exactly the stated amount, never beyond the balance.
func VerifC17_DAO() {
	g := vNewGov()
	daoBal := sdk.NewIntFromBigInt(zz.Big("daobal", sdk.NewInt(0).BigInt(), sdk.NewInt(1<<60).BigInt()))
	if !daoBal.IsZero() {
		if err := g.ak.MintCoins(g.ctx, types.DAOAccountName, sdk.NewCoins(sdk.NewCoin(sdk.DefaultStakeDenom, daoBal))); err != nil {
			panic(err)
		}
	}
	amt := sdk.NewIntFromBigInt(zz.Big("amount", sdk.NewInt(0).BigInt(), sdk.NewInt(1<<61).BigInt()))
	senders := []sdk.Address{g.b, g.a, g.s}
	sender := senders[zz.Choice("sender", 3)]
	action := []string{types.DAOTransferString, types.DAOBurnString, "something-else"}[zz.Choice("action", 3)]
	to := []sdk.Address{g.s, g.ak.GetModuleAddress(types.DAOAccountName)}[zz.Choice("to", 2)]
	bal := func(a sdk.Address) sdk.Int { return g.ak.GetCoins(g.ctx, a).AmountOf(sdk.DefaultStakeDenom) }
	daoAddr := g.ak.GetModuleAddress(types.DAOAccountName)
	preDao, preTo := bal(daoAddr), bal(to)
	preSupply := g.ak.GetSupply(g.ctx).GetTotal().AmountOf(sdk.DefaultStakeDenom)
	ok, crashed := vRun(g, types.MsgDAOTransfer{FromAddress: sender, ToAddress: to, Amount: amt, Action: action})
	postDao, postTo := bal(daoAddr), bal(to)
	postSupply := g.ak.GetSupply(g.ctx).GetTotal().AmountOf(sdk.DefaultStakeDenom)
	zz.Assert("C17.dao.no-crash", !crashed)
	isOwner := sender.Equals(g.daoOwner)
	if ok {
		zz.Assert("C17.dao.only-owner-and-within-balance", isOwner && amt.LTE(preDao) && amt.IsPositive())
		if action == types.DAOTransferString {
			if to.Equals(daoAddr) {
				zz.Assert("C17.dao.self-transfer-neutral", postDao.Equal(preDao) && postSupply.Equal(preSupply))
			} else {
				zz.Assert("C17.dao.transfer-exact", preDao.Sub(postDao).Equal(amt) && postTo.Sub(preTo).Equal(amt) && postSupply.Equal(preSupply))
			}
		} else {
			zz.Assert("C17.dao.burn-exact", action == types.DAOBurnString && preDao.Sub(postDao).Equal(amt) && preSupply.Sub(postSupply).Equal(amt))
		}
	} else {
		zz.Assert("C17.dao.rejected-changes-nothing", postDao.Equal(preDao) && postTo.Equal(preTo) && postSupply.Equal(preSupply))
	}
	zz.Reach("C17.dao")
}

// VerifC11_GovHandlers: a governance message that is rejected (wrong sender, unknown action, overdraft) or whose
// handler panics has written nothing to any store.
func VerifC11_GovHandlers() { vGovHandlers("C11.gov") }

// VerifC17_RejectedMessagesChangeNothing: the same, read for governance: a governance message that is rejected - wrong
// sender, unknown key, too large an amount, no recipient - changes nothing.
func VerifC17_RejectedMessagesChangeNothing() { vGovHandlers("C17.rejected") }

func vGovHandlers(p string) {
	g := vNewGov()
	if err := g.ak.MintCoins(g.ctx, types.DAOAccountName, sdk.NewCoins(sdk.NewCoin(sdk.DefaultStakeDenom, sdk.NewInt(1000)))); err != nil {
		panic(err)
	}
	senders := []sdk.Address{g.a, g.b, g.s}
	sender := senders[zz.Choice("sender", 3)]
	var msg sdk.Msg
	direct := false
	switch zz.Choice("msg", 7) {
	case 6: // the ACL owner submits an access-control list that leaves parameters without an owner
		bad := types.ACL{}
		bad.SetOwner("gov/acl", g.b)
		msg = types.MsgChangeParam{FromAddress: sender, ParamKey: "gov/acl", ParamVal: g.cdc.MustMarshalJSON(bad)}
	case 5: // a DAO transfer without recipient handed to the handler directly (a caller that skips ValidateBasic)
		amt := sdk.NewIntFromBigInt(zz.Big("amount", sdk.NewInt(1).BigInt(), sdk.NewInt(5000).BigInt()))
		msg = types.MsgDAOTransfer{FromAddress: sender, ToAddress: nil, Amount: amt, Action: types.DAOTransferString}
		direct = true
	case 4:
		msg = types.MsgChangeParam{FromAddress: sender, ParamKey: "bank/SendEnabled", ParamVal: g.cdc.MustMarshalJSON(true)}
	case 0:
		msg = types.MsgChangeParam{FromAddress: sender, ParamKey: "auth/MaxMemoCharacters", ParamVal: g.cdc.MustMarshalJSON(zz.Uint64("v", 0, 1<<62))}
	case 1:
		msg = types.MsgChangeParam{FromAddress: sender, ParamKey: "auth/NoSuchParam", ParamVal: g.cdc.MustMarshalJSON(uint64(1))}
	case 2:
		amt := sdk.NewIntFromBigInt(zz.Big("amount", sdk.NewInt(1).BigInt(), sdk.NewInt(5000).BigInt()))
		msg = types.MsgDAOTransfer{FromAddress: sender, ToAddress: g.s, Amount: amt, Action: types.DAOTransferString}
	case 3:
		amt := sdk.NewIntFromBigInt(zz.Big("amount", sdk.NewInt(1).BigInt(), sdk.NewInt(5000).BigInt()))
		msg = types.MsgDAOTransfer{FromAddress: sender, Amount: amt, Action: types.DAOBurnString}
	}
	snap := g.ms.Snapshot()
	var ok, crashed bool
	if direct {
		func() {
			defer func() {
				if r := recover(); r != nil {
					crashed = true
				}
			}()
			ok = NewHandler(g.k)(g.ctx, msg).IsOK()
		}()
	} else {
		ok, crashed = vRun(g, msg)
	}
	zz.Assert(p+".process-keeps-running", !crashed)
	if !ok || crashed {
		zz.Assert(p+".failed-handler-wrote-nothing", g.ms.Same(snap))
	}
	zz.Reach(p + ".handlers")
}

// VerifC17_Upgrade: the upgrade plan changes only through a MsgUpgrade (or a MsgChangeParam on gov/upgrade) whose
// sender is the ACL owner of gov/upgrade, and that message changes the upgrade plan alone.
func VerifC17_Upgrade() {
	g := vNewGov()
	senders := []sdk.Address{g.a, g.b, g.s, nil, {}}
	sender := senders[zz.Choice("sender", len(senders))]
	up := types.Upgrade{Height: zz.Int64("height", 1, 1<<40), Version: []string{"1.0.0", "2.0.0"}[zz.Choice("version", 2)]}
	before := g.raw()
	var ok, crashed bool
	if zz.Choice("via", 2) == 0 {
		ok, crashed = vRun(g, types.MsgUpgrade{Address: sender, Upgrade: up})
	} else {
		ok, crashed = vRun(g, types.MsgChangeParam{FromAddress: sender, ParamKey: "gov/upgrade", ParamVal: g.cdc.MustMarshalJSON(up)})
	}
	after := g.raw()
	zz.Assert("C17.upgrade.no-crash", !crashed)
	isOwner := sender != nil && len(sender) > 0 && sender.Equals(g.b)
	for i, k := range vParamKeys {
		if k != "gov/upgrade" {
			zz.Assert("C17.upgrade.changes-the-upgrade-plan-alone", bytes.Equal(before[i], after[i]))
		} else if !isOwner {
			zz.Assert("C17.upgrade.only-by-its-acl-owner", bytes.Equal(before[i], after[i]) && !ok)
		}
	}
	if isOwner {
		got := g.k.GetUpgrade(g.ctx)
		zz.Assert("C17.upgrade.owner-change-takes-effect", ok && got.Height == up.Height && got.Version == up.Version)
	}
	// blocks go by (before and past the plan's height; at the plan's height itself an outdated node stops): the module's
	// begin / end blockers change no parameter
	am := NewAppModule(g.k)
	planned := g.k.GetUpgrade(g.ctx).Height
	for _, h := range []int64{planned - 1, planned + 1, planned + 2} {
		if h < 1 {
			continue
		}
		bctx := g.ctx.WithBlockHeight(h)
		am.BeginBlock(bctx, abci.RequestBeginBlock{Header: abci.Header{Height: h}})
		am.EndBlock(bctx, abci.RequestEndBlock{Height: h})
	}
	later := g.raw()
	for i := range vParamKeys {
		zz.Assert("C17.upgrade.blocks-going-by-change-no-parameter", bytes.Equal(after[i], later[i]))
	}
	zz.Reach("C17.upgrade")
}

// VerifC17_DiscardedACLChange: an ACL change (by its rightful owner) executed on a cache-wrapped branch that is then
// discarded - a simulated or failed transaction - grants nothing: afterwards the stranger it named is still rejected
// and the rightful owners still are accepted.
func VerifC17_DiscardedACLChange() {
	g := vNewGov()
	acl := types.ACL{}
	for _, k := range vParamKeys {
		acl.SetOwner(k, g.s)
	}
	branch := *g
	cctx, _ := g.ctx.CacheContext()
	branch.ctx = cctx
	ok, crashed := vRun(&branch, types.MsgChangeParam{FromAddress: g.b, ParamKey: "gov/acl", ParamVal: g.cdc.MustMarshalJSON(acl)})
	zz.Assert("C17.discarded.acl-change-ran-on-the-branch", ok && !crashed)
	before := g.raw()
	// the stranger tries to use what the discarded change would have granted
	ki := zz.Choice("key", 3)
	key := []string{"gov/daoOwner", "auth/MaxMemoCharacters", "gov/upgrade"}[ki]
	val := [][]byte{g.cdc.MustMarshalJSON(g.s), g.cdc.MustMarshalJSON(uint64(99)), g.cdc.MustMarshalJSON(types.Upgrade{Height: 5, Version: "9"})}[ki]
	ok, crashed = vRun(g, types.MsgChangeParam{FromAddress: g.s, ParamKey: key, ParamVal: val})
	after := g.raw()
	same := true
	for i := range before {
		same = same && bytes.Equal(before[i], after[i])
	}
	zz.Assert("C17.discarded.stranger-still-rejected", !ok && !crashed && same)
	// and the rightful owner still is the owner
	ok, _ = vRun(g, types.MsgChangeParam{FromAddress: vOwnerOf(g, key), ParamKey: key, ParamVal: val})
	zz.Assert("C17.discarded.rightful-owner-still-accepted", ok)
	zz.Reach("C17.discarded.end")
}

// VerifC17_ExportImport: the governance state (ACL, DAO owner, upgrade plan) survives a genesis export and a start
// from that genesis unchanged - no parameter changes without a governance message.
func VerifC17_ExportImport() {
	a := vNewGov()
	up := types.Upgrade{Height: zz.Int64("height", 1, 1<<40), Version: "3.1.4"}
	ok, crashed := vRun(a, types.MsgUpgrade{Address: a.b, Upgrade: up})
	zz.Assert("C17.export.setup", ok && !crashed)
	gs := a.k.ExportGenesis(a.ctx)
	b := vNewGov()
	b.k.InitGenesis(b.ctx, gs)
	ra, rb := a.raw(), b.raw()
	for i, k := range vParamKeys {
		if len(k) > 4 && k[:4] == "gov/" {
			zz.Assert("C17.export.governance-parameter-survives", bytes.Equal(ra[i], rb[i]))
		}
	}
	got := b.k.GetUpgrade(b.ctx)
	zz.Assert("C17.export.upgrade-plan-survives", got.Height == up.Height && got.Version == up.Version)
	zz.Reach("C17.export.end")
}

// VerifC03_GovFees: every governance message type has a base fee on record (the table the ante handler multiplies),
// and the message reports exactly that fee.
func VerifC03_GovFees() {
	g := vNewGov()
	msgs := []sdk.Msg{
		types.MsgChangeParam{FromAddress: g.b, ParamKey: "gov/upgrade", ParamVal: []byte("x")},
		types.MsgDAOTransfer{FromAddress: g.b, ToAddress: g.s, Amount: sdk.NewInt(1), Action: types.DAOTransferString},
		types.MsgDAOTransfer{FromAddress: g.b, Amount: sdk.NewInt(1), Action: types.DAOBurnString},
		types.MsgUpgrade{Address: g.b, Upgrade: types.Upgrade{Height: 5, Version: "1"}},
	}
	want := []int64{types.MsgChangeParamFee, types.DAOTransferFee, types.DAOTransferFee, types.MsgUpgradeFee}
	i := zz.Choice("msg", len(msgs))
	fee, listed := types.GovFeeMap[msgs[i].Type()]
	zz.Assert("C03.govfees.message-type-has-a-base-fee", listed && fee == want[i])
	zz.Assert("C03.govfees.message-reports-its-base-fee", msgs[i].GetFee().Equal(sdk.NewInt(want[i])))
	mult := zz.Int64("multiplier", 0, 1000)
	fm := authtypes.FeeMultipliers{FeeMultis: []authtypes.FeeMultiplier{{Key: msgs[i].Type(), Multiplier: mult}}, Default: 1}
	zz.Assert("C03.govfees.required-fee", fm.GetFee(msgs[i]).Equal(sdk.NewInt(want[i]).Mul(sdk.NewInt(mult))))
	zz.Reach("C03.govfees.end")
}

// VerifC17_DAOFundsAtPlainAccount: coins that reached the DAO's address before its module account existed (a genesis
// that lists the DAO address as an ordinary account, a plain send) are the DAO's funds: reading the balance does not
// change it, and the owner's burn / transfer moves exactly the stated amount.
func VerifC17_DAOFundsAtPlainAccount() {
	g := vNewGov()
	daoAddr := g.ak.GetModuleAddress(types.DAOAccountName)
	funder := vAddr(0x77)
	total := sdk.NewInt(1000)
	if err := g.ak.MintCoins(g.ctx, "minter", sdk.NewCoins(sdk.NewCoin(sdk.DefaultStakeDenom, total))); err != nil {
		panic(err)
	}
	if err := g.ak.SendCoinsFromModuleToAccount(g.ctx, "minter", funder, sdk.NewCoins(sdk.NewCoin(sdk.DefaultStakeDenom, total))); err != nil {
		panic(err)
	}
	if err := g.ak.SendCoins(g.ctx, funder, daoAddr, sdk.NewCoins(sdk.NewCoin(sdk.DefaultStakeDenom, total))); err != nil {
		panic(err)
	}
	zz.Assert("C17.dao-plain.balance-readable", g.k.GetDAOTokens(g.ctx).Equal(total))
	amt := sdk.NewIntFromBigInt(zz.Big("amount", sdk.NewInt(1).BigInt(), sdk.NewInt(1500).BigInt()))
	var msg sdk.Msg
	burn := zz.Choice("action", 2) == 1
	if burn {
		msg = types.MsgDAOTransfer{FromAddress: g.daoOwner, Amount: amt, Action: types.DAOBurnString}
	} else {
		msg = types.MsgDAOTransfer{FromAddress: g.daoOwner, ToAddress: g.s, Amount: amt, Action: types.DAOTransferString}
	}
	ok, crashed := vRun(g, msg)
	zz.Assert("C17.dao-plain.no-crash", !crashed)
	left := g.k.GetDAOTokens(g.ctx)
	if amt.LTE(total) {
		zz.Assert("C17.dao-plain.owner-action-moves-exactly-the-amount", ok && left.Equal(total.Sub(amt)))
	} else {
		zz.Assert("C17.dao-plain.not-beyond-the-balance", !ok && left.Equal(total))
	}
	zz.Reach("C17.dao-plain.end")
}


// VerifC17_DuplicateACLEntry: an access-control list may name a key twice (neither genesis validation nor a gov/acl change
// refuses that); the owner is then the first entry - the one SetOwner maintains and hand-overs rewrite: the address of the
// later entry is a stranger to that parameter, before and after a hand-over by the owner.
func VerifC17_DuplicateACLEntry() {
	g := vNewGov()
	key := []string{"auth/MaxMemoCharacters", "gov/daoOwner", "gov/acl"}[zz.Choice("key", 3)]
	p := g.k.GetParams(g.ctx)
	acl := p.ACL
	acl = append(acl, types.ACLPair{Key: key, Addr: g.s}) // a second, later entry for the key names the stranger
	p.ACL = acl
	g.k.SetParams(g.ctx, p)
	owner := vOwnerOf(g, key)
	who := []sdk.Address{owner, g.s}[zz.Choice("sender", 2)]
	before := g.raw()
	var ok, crashed bool
	switch key {
	case "auth/MaxMemoCharacters":
		ok, crashed = vRun(g, types.MsgChangeParam{FromAddress: who, ParamKey: key, ParamVal: g.cdc.MustMarshalJSON(zz.Uint64("newvalue", 1, 1<<40))})
	case "gov/daoOwner":
		ok, crashed = vRun(g, types.MsgChangeParam{FromAddress: who, ParamKey: key, ParamVal: g.cdc.MustMarshalJSON(g.s)})
	default:
		ok, crashed = vRun(g, types.MsgChangeParam{FromAddress: who, ParamKey: key, ParamVal: g.cdc.MustMarshalJSON(acl)})
	}
	after := g.raw()
	zz.Assert("C17.dup.no-crash", !crashed)
	if who.Equals(owner) {
		zz.Assert("C17.dup.first-entry-is-the-owner", ok)
	} else {
		same := true
		for i := range before {
			same = same && bytes.Equal(before[i], after[i])
		}
		zz.Assert("C17.dup.later-entry-grants-nothing", !ok && same)
	}
	zz.Reach("C17.dup")
}
