package auth

import (
	"bytes"
	"encoding/hex"
	"encoding/json"
	"net/http"
	"net/http/httptest"
	"reflect"
	"unsafe"

	abci "github.com/tendermint/tendermint/abci/types"
	tmcfg "github.com/tendermint/tendermint/config"
	"github.com/tendermint/tendermint/libs/log"
	"github.com/tendermint/tendermint/node"

	"github.com/pokt-network/posmint/codec"
	"github.com/pokt-network/posmint/crypto"
	sdk "github.com/pokt-network/posmint/types"
	"github.com/pokt-network/posmint/x/auth/keeper"
	"github.com/pokt-network/posmint/x/auth/types"
	postypes "github.com/pokt-network/posmint/x/pos/types"
	zz "github.com/pokt-network/posmint/zzverif"
	"github.com/pokt-network/posmint/zzverif/vms"
)

// three fixed ed25519 key pairs (seeds 01.., 02.., 03..)
var vPrivHex = []string{
	"0100000000000000000000000000000000000000000000000000000000000000cecc1507dc1ddd7295951c290888f095adb9044d1b73d696e6df065d683bd4fc",
	"02000000000000000000000000000000000000000000000000000000000000006b79c57e6a095239282c04818e96112f3f03a4001ba97a564c23852a3f1ea5fc",
	"0300000000000000000000000000000000000000000000000000000000000000dadbd184a2d526f1ebdd5c06fdad9359b228759b4d7f79d66689fa254aad8546",
}

func vKeyPair(i int) (crypto.Ed25519PrivateKey, crypto.PublicKey) {
	raw, _ := hex.DecodeString(vPrivHex[i])
	var priv crypto.Ed25519PrivateKey
	copy(priv[:], raw)
	var pub crypto.Ed25519PublicKey
	copy(pub[:], raw[32:])
	return priv, pub
}

// vNode: the ante handler asks the node's RPC endpoint whether the tx hash is already indexed.
// Under the engine that lookup is an intrinsic answering a symbolic boolean ("txindex.contains"); natively a
// local JSON-RPC stub answers with the replayed value of the same variable.
func vNode() (*node.Node, func()) {
	if zz.Symbolic() {
		return nil, func() {}
	}
	srv := httptest.NewServer(http.HandlerFunc(func(w http.ResponseWriter, r *http.Request) {
		w.Header().Set("Content-Type", "application/json")
		// the client refuses a response whose id is not the id of its request
		var req struct {
			ID json.RawMessage `json:"id"`
		}
		json.NewDecoder(r.Body).Decode(&req)
		if zz.GetEnv("txindex.contains") {
			res := map[string]interface{}{"jsonrpc": "2.0", "id": req.ID, "result": map[string]interface{}{
				"hash": "00", "height": "1", "index": 0, "tx_result": map[string]interface{}{}, "tx": ""}}
			json.NewEncoder(w).Encode(res)
			return
		}
		json.NewEncoder(w).Encode(map[string]interface{}{"jsonrpc": "2.0", "id": req.ID, "error": map[string]interface{}{"code": -32603, "message": "Internal error", "data": "tx not found"}})
	}))
	n := &node.Node{}
	cfg := tmcfg.DefaultConfig()
	cfg.RPC.ListenAddress = srv.URL
	f := reflect.ValueOf(n).Elem().FieldByName("config")
	reflect.NewAt(f.Type(), unsafe.Pointer(f.UnsafeAddr())).Elem().Set(reflect.ValueOf(cfg))
	return n, srv.Close
}

type vAnte struct {
	ctx sdk.Context
	ak  keeper.Keeper
}

func vNewAnte() *vAnte {
	keyAcc := sdk.NewKVStoreKey(StoreKey)
	ms := vms.New(keyAcc, sdk.ParamsKey, sdk.ParamsTKey)
	ctx := sdk.NewContext(ms, abci.Header{ChainID: "verif-chain", Height: 5}, false, log.NewNopLogger())
	cdc := codec.New()
	RegisterCodec(cdc)
	postypes.RegisterCodec(cdc)
	sdk.RegisterCodec(cdc)
	codec.RegisterCrypto(cdc)
	ak := keeper.NewKeeper(cdc, keyAcc, sdk.NewSubspace(DefaultParamspace), map[string][]string{FeeCollectorName: nil, "minter": {Minter}})
	ak.SetParams(ctx, types.DefaultParams())
	ak.SetSupply(ctx, types.NewSupply(sdk.NewCoins()))
	return &vAnte{ctx: ctx, ak: ak}
}

func (a *vAnte) fund(addr sdk.Address, amt sdk.Int, pub crypto.PublicKey) {
	if !amt.IsZero() {
		coins := sdk.NewCoins(sdk.NewCoin(sdk.DefaultStakeDenom, amt))
		if err := a.ak.MintCoins(a.ctx, "minter", coins); err != nil {
			panic(err)
		}
		if err := a.ak.SendCoinsFromModuleToAccount(a.ctx, "minter", addr, coins); err != nil {
			panic(err)
		}
	}
	if pub != nil {
		acc := a.ak.GetAccount(a.ctx, addr)
		if acc == nil {
			acc, _ = a.ak.NewAccountWithAddress(a.ctx, addr)
		}
		_ = acc.SetPubKey(pub)
		a.ak.SetAccount(a.ctx, acc)
	}
}

func (a *vAnte) bal(addr sdk.Address) sdk.Int {
	return a.ak.GetCoins(a.ctx, addr).AmountOf(sdk.DefaultStakeDenom)
}

func vFee(amt sdk.Int) sdk.Coins {
	return sdk.NewCoins(sdk.NewCoin(sdk.DefaultStakeDenom, amt))
}

// VerifC03_Ante: a MsgSend from the victim/signer, signed by the signer or by an attacker, key in the signature or in
// state, exactly one signed field possibly changed after signing, symbolic fee / balance / base fee / multiplier /
// tx-index answer: acceptance implies a valid signature of the declared signer over the submitted content, a sufficient
// fee moved signer -> collector, and no replay.
func VerifC03_Ante() {
	a := vNewAnte()
	signerPriv, signerPub := vKeyPair(0)
	attackerPriv, attackerPub := vKeyPair(1)
	signer := sdk.Address(signerPub.Address())
	attacker := sdk.Address(attackerPub.Address())
	recipient := sdk.Address(make([]byte, 20))
	// balances; the signer's public key may or may not be known to the state
	balSigner := sdk.NewIntFromBigInt(zz.Big("bal_signer", sdk.NewInt(0).BigInt(), sdk.NewInt(1<<50).BigInt()))
	keyInState := zz.Choice("signer_key_in_state", 2) == 1
	if keyInState {
		a.fund(signer, balSigner, signerPub)
	} else {
		a.fund(signer, balSigner, nil)
	}
	a.fund(attacker, sdk.NewInt(1000000), attackerPub)
	// fee policy: base fee of "send" and the multiplier (listed or default) are symbolic
	base := zz.Int64("base_fee", 0, 1000000)
	postypes.PosFeeMap = map[string]int64{"send": base}
	mult := zz.Int64("multiplier", 0, 1000)
	p := a.ak.GetParams(a.ctx)
	if zz.Choice("multiplier_listed", 2) == 1 {
		p.FeeMultiplier = types.FeeMultipliers{FeeMultis: []types.FeeMultiplier{{Key: "send", Multiplier: mult}}, Default: 1}
	} else {
		p.FeeMultiplier = types.FeeMultipliers{Default: mult}
	}
	a.ak.SetParams(a.ctx, p)

	// the transaction as signed
	amount := sdk.NewInt(777)
	fee := sdk.NewIntFromBigInt(zz.Big("fee", sdk.NewInt(0).BigInt(), sdk.NewInt(1<<51).BigInt()))
	entropy := zz.Int64("entropy", 1, 1<<62)
	msg := postypes.MsgSend{FromAddress: signer, ToAddress: recipient, Amount: amount}
	var feeCoins sdk.Coins
	if fee.IsZero() {
		feeCoins = sdk.NewCoins()
	} else {
		feeCoins = vFee(fee)
	}
	// the fee may also be offered (partly) in a denomination that is not the staking token
	foreign := zz.Choice("fee_in_foreign_denom", 2) == 1
	if foreign {
		aaa := sdk.NewCoins(sdk.NewCoin("aaa", sdk.NewInt(5)))
		if err := a.ak.MintCoins(a.ctx, "minter", aaa); err != nil {
			panic(err)
		}
		if err := a.ak.SendCoinsFromModuleToAccount(a.ctx, "minter", signer, aaa); err != nil {
			panic(err)
		}
		feeCoins = feeCoins.Add(aaa)
	}
	memo := "m"
	signedBytes, err := types.StdSignBytes(a.ctx.ChainID(), entropy, feeCoins, msg, memo)
	if err != nil {
		panic(err)
	}
	// who signs, and which key travels in the signature
	who := zz.Choice("signed_by", 2) // 0 signer, 1 attacker
	var sig []byte
	if who == 0 {
		sig, _ = signerPriv.Sign(signedBytes)
	} else {
		sig, _ = attackerPriv.Sign(signedBytes)
	}
	var sigKey crypto.PublicKey
	switch zz.Choice("key_in_signature", 3) {
	case 0:
		sigKey = nil
	case 1:
		sigKey = signerPub
	case 2:
		sigKey = attackerPub
	}
	// mutation of one signed field after signing
	tx := types.NewStdTx(msg, feeCoins, types.StdSignature{PublicKey: sigKey, Signature: sig}, memo, entropy)
	mutated := zz.Choice("mutate", 7)
	chain := a.ctx.ChainID()
	switch mutated {
	case 1:
		tx.Entropy = zz.Int64("entropy2", 1, 1<<62)
	case 2:
		f2 := sdk.NewIntFromBigInt(zz.Big("fee2", sdk.NewInt(1).BigInt(), sdk.NewInt(1<<51).BigInt()))
		tx.Fee = vFee(f2)
		fee = f2
	case 3:
		tx.Memo = "other memo"
	case 4:
		tx.Msg = postypes.MsgSend{FromAddress: signer, ToAddress: attacker, Amount: amount}
	case 5:
		// white space appended / prepended after signing is a change of a signed field too (seed C03-m11)
		tx.Memo = memo + " "
	case 6:
		tx.Memo = "\t" + memo + "\n"
	}
	unchanged := mutated == 0 || (mutated == 1 && tx.Entropy == entropy) || (mutated == 2 && !foreign && tx.Fee.IsEqual(feeCoins))
	_ = chain

	indexed := zz.Bool("txindex.contains")
	zz.SetEnv("txindex.contains", indexed)
	tmNode, closeNode := vNode()
	defer closeNode()
	preSigner, preCollector, preAttacker := a.bal(signer), a.bal(a.ak.GetModuleAddress(FeeCollectorName)), a.bal(attacker)
	_, res, abort := NewAnteHandler(a.ak)(a.ctx, tx, []byte("tx-bytes"), tmNode, false)
	postSigner, postCollector, postAttacker := a.bal(signer), a.bal(a.ak.GetModuleAddress(FeeCollectorName)), a.bal(attacker)
	if !abort {
		zz.Assert("C03.accept.result-ok", res.IsOK())
		zz.Assert("C03.accept.not-a-replay", !indexed)
		// the verifying key is the one in the signature if present, else the signer's stored key
		keyIsSigners := (sigKey != nil && bytes.Equal(sigKey.RawBytes(), signerPub.RawBytes())) || (sigKey == nil && keyInState)
		zz.Assert("C03.accept.key-belongs-to-declared-signer", keyIsSigners)
		zz.Assert("C03.accept.signed-by-that-key", who == 0)
		zz.Assert("C03.accept.signed-content-unchanged", unchanged)
		need := sdk.NewInt(base).Mul(sdk.NewInt(mult))
		zz.Assert("C03.accept.fee-at-least-required", tx.Fee.AmountOf(sdk.DefaultStakeDenom).GTE(need))
		paid := tx.Fee.AmountOf(sdk.DefaultStakeDenom)
		zz.Assert("C03.accept.fee-moved-signer-to-collector", preSigner.Sub(postSigner).Equal(paid) && postCollector.Sub(preCollector).Equal(paid) && postAttacker.Equal(preAttacker))
	} else {
		zz.Assert("C03.reject.no-balance-change", postSigner.Equal(preSigner) && postCollector.Equal(preCollector) && postAttacker.Equal(preAttacker))
	}
	zz.Reach("C03.ante")
}

// VerifC03_Multisig: the signer is a 2-key multisignature account; every member must have signed the submitted content
// in its own position, and the fee rule applies to multisignature transactions as well.
func VerifC03_Multisig() {
	a := vNewAnte()
	p0, k0 := vKeyPair(0)
	p1, k1 := vKeyPair(1)
	p2, _ := vKeyPair(2)
	multi := crypto.PublicKeyMultiSignature{PublicKeys: []crypto.PublicKey{k0, k1}}
	signer := sdk.Address(multi.Address())
	bal := sdk.NewIntFromBigInt(zz.Big("bal_signer", sdk.NewInt(0).BigInt(), sdk.NewInt(1<<50).BigInt()))
	a.fund(signer, bal, nil)
	base := zz.Int64("base_fee", 0, 1000000)
	postypes.PosFeeMap = map[string]int64{"send": base}
	mult := zz.Int64("multiplier", 0, 1000)
	p := a.ak.GetParams(a.ctx)
	p.FeeMultiplier = types.FeeMultipliers{Default: mult}
	a.ak.SetParams(a.ctx, p)
	fee := sdk.NewIntFromBigInt(zz.Big("fee", sdk.NewInt(0).BigInt(), sdk.NewInt(1<<51).BigInt()))
	var feeCoins sdk.Coins
	if fee.IsZero() {
		feeCoins = sdk.NewCoins()
	} else {
		feeCoins = vFee(fee)
	}
	entropy := zz.Int64("entropy", 1, 1<<62)
	msg := postypes.MsgSend{FromAddress: signer, ToAddress: sdk.Address(make([]byte, 20)), Amount: sdk.NewInt(5)}
	sb, err := types.StdSignBytes(a.ctx.ChainID(), entropy, feeCoins, msg, "")
	if err != nil {
		panic(err)
	}
	other, _ := types.StdSignBytes(a.ctx.ChainID(), entropy+1, feeCoins, msg, "")
	// each position: signed by the right member / by the other member / by an outsider / over different content / garbage
	mk := func(pos int, kind int) []byte {
		right, wrong := p0, p1
		if pos == 1 {
			right, wrong = p1, p0
		}
		var s []byte
		switch kind {
		case 0:
			s, _ = right.Sign(sb)
		case 1:
			s, _ = wrong.Sign(sb)
		case 2:
			s, _ = p2.Sign(sb)
		case 3:
			s, _ = right.Sign(other)
		case 4:
			s = []byte{1, 2, 3}
		}
		return s
	}
	kind0, kind1 := zz.Choice("sig0", 5), zz.Choice("sig1", 5)
	ms := crypto.MultiSignature{Sigs: [][]byte{mk(0, kind0), mk(1, kind1)}}
	if zz.Choice("drop_second", 2) == 1 {
		ms.Sigs = ms.Sigs[:1]
	}
	tx := types.NewStdTx(msg, feeCoins, types.StdSignature{PublicKey: multi, Signature: ms.Marshal()}, "", entropy)
	indexed := zz.Bool("txindex.contains")
	zz.SetEnv("txindex.contains", indexed)
	tmNode, closeNode := vNode()
	defer closeNode()
	pre := a.bal(signer)
	_, _, abort := NewAnteHandler(a.ak)(a.ctx, tx, []byte("tx-bytes-2"), tmNode, false)
	if !abort {
		zz.Assert("C03.multisig.every-member-signed-in-position", kind0 == 0 && kind1 == 0 && len(ms.Sigs) == 2)
		zz.Assert("C03.multisig.not-a-replay", !indexed)
		zz.Assert("C03.multisig.fee-at-least-required", fee.GTE(sdk.NewInt(base).Mul(sdk.NewInt(mult))))
		zz.Assert("C03.multisig.fee-paid-by-signer", pre.Sub(a.bal(signer)).Equal(fee))
	} else {
		zz.Assert("C03.multisig.reject-no-balance-change", a.bal(signer).Equal(pre))
	}
	zz.Reach("C03.multisig")
}
