package auth

import (
	"bytes"

	"github.com/pokt-network/posmint/crypto"
	sdk "github.com/pokt-network/posmint/types"
	"github.com/pokt-network/posmint/x/auth/types"
	postypes "github.com/pokt-network/posmint/x/pos/types"
	zz "github.com/pokt-network/posmint/zzverif"
)

// vKindMsg builds the k-th pos message whose declared signer is the owner of pub.
func vKindMsg(k int, pub crypto.PublicKey, other sdk.Address) sdk.Msg {
	signer := sdk.Address(pub.Address())
	switch k {
	case 0:
		return postypes.MsgSend{FromAddress: signer, ToAddress: other, Amount: sdk.NewInt(5)}
	case 1:
		return postypes.MsgStake{PubKey: pub, Value: sdk.NewInt(1000000)}
	case 2:
		return postypes.MsgBeginUnstake{Address: signer}
	}
	return postypes.MsgUnjail{ValidatorAddr: signer}
}

var vKindNames = []string{"send", "stake_validator", "begin_unstaking_validator", "unjail"}

// VerifC03_MessageKinds: every pos message type through the ante handler: the declared signer is the one the
// message names (From / owner of PubKey / validator address), the required fee is base(type) x multiplier(type)
// with per-type base fees and a multiplier list that names one type (the others fall back to the default), and a
// message swapped for another type (same signer) after signing is rejected.
func VerifC03_MessageKinds() {
	a := vNewAnte()
	signerPriv, signerPub := vKeyPair(0)
	attackerPriv, attackerPub := vKeyPair(1)
	signer := sdk.Address(signerPub.Address())
	attacker := sdk.Address(attackerPub.Address())
	a.fund(signer, sdk.NewInt(1<<40), nil)
	a.fund(attacker, sdk.NewInt(1<<40), attackerPub)

	kind := zz.Choice("kind", 4)
	bases := [4]int64{zz.Int64("base.send", 0, 100000), zz.Int64("base.stake", 0, 100000), zz.Int64("base.unstake", 0, 100000), zz.Int64("base.unjail", 0, 100000)}
	postypes.PosFeeMap = map[string]int64{}
	for i, n := range vKindNames {
		postypes.PosFeeMap[n] = bases[i]
	}
	listed := zz.Choice("listed_kind", 4)
	multListed, multDefault := zz.Int64("mult.listed", 0, 100), zz.Int64("mult.default", 0, 100)
	// governance can set any int64 multiplier: some huge ones (base x multiplier beyond 2^63 and beyond 2^64)
	switch zz.Choice("huge_multiplier", 4) {
	case 1:
		multDefault, multListed = 1<<60, 1<<60
	case 2:
		multDefault, multListed = 1844674407370956, 1844674407370956
	case 3:
		multDefault, multListed = 1<<62+12345, 1<<53+1
	}
	p := a.ak.GetParams(a.ctx)
	p.FeeMultiplier = types.FeeMultipliers{FeeMultis: []types.FeeMultiplier{{Key: vKindNames[listed], Multiplier: multListed}}, Default: multDefault}
	a.ak.SetParams(a.ctx, p)

	msg := vKindMsg(kind, signerPub, attacker)
	zz.Assert("C03.kinds.declared-signer", bytes.Equal(msg.GetSigner(), signer))
	fee := sdk.NewIntFromBigInt(zz.Big("fee", sdk.NewInt(0).BigInt(), sdk.NewInt(1<<30).BigInt()))
	feeCoins := sdk.NewCoins()
	if !fee.IsZero() {
		feeCoins = vFee(fee)
	}
	entropy := zz.Int64("entropy", 1, 1<<62)
	signedBytes, err := types.StdSignBytes(a.ctx.ChainID(), entropy, feeCoins, msg, "")
	if err != nil {
		panic(err)
	}
	who := zz.Choice("signed_by", 2)
	var sig []byte
	var sigKey crypto.PublicKey
	if who == 0 {
		sig, _ = signerPriv.Sign(signedBytes)
		sigKey = signerPub
	} else {
		sig, _ = attackerPriv.Sign(signedBytes)
		sigKey = attackerPub
	}
	tx := types.NewStdTx(msg, feeCoins, types.StdSignature{PublicKey: sigKey, Signature: sig}, "", entropy)
	swapped := zz.Choice("swap_kind_after_signing", 2) == 1
	submitted := kind
	if swapped {
		submitted = (kind + 1 + zz.Choice("swap_to", 3)) % 4
		tx.Msg = vKindMsg(submitted, signerPub, attacker)
	}
	zz.SetEnv("txindex.contains", false)
	tmNode, closeNode := vNode()
	defer closeNode()
	preSigner, preCollector := a.bal(signer), a.bal(a.ak.GetModuleAddress(FeeCollectorName))
	_, res, abort := NewAnteHandler(a.ak)(a.ctx, tx, []byte("tx-bytes"), tmNode, false)
	postSigner, postCollector := a.bal(signer), a.bal(a.ak.GetModuleAddress(FeeCollectorName))
	if !abort {
		zz.Reach("C03.kinds.accepted")
		zz.Assert("C03.kinds.accept.result-ok", res.IsOK())
		zz.Assert("C03.kinds.accept.signed-by-declared-signer", who == 0)
		zz.Assert("C03.kinds.accept.message-is-the-signed-one", !swapped)
		m := multDefault
		if submitted == listed {
			m = multListed
		}
		need := sdk.NewInt(bases[submitted]).Mul(sdk.NewInt(m))
		zz.Assert("C03.kinds.accept.fee-at-least-required-for-this-type", fee.GTE(need))
		zz.Assert("C03.kinds.accept.fee-moved-signer-to-collector", preSigner.Sub(postSigner).Equal(fee) && postCollector.Sub(preCollector).Equal(fee))
	} else {
		zz.Assert("C03.kinds.reject.no-balance-change", postSigner.Equal(preSigner) && postCollector.Equal(preCollector))
	}
	zz.Reach("C03.kinds.end")
}
