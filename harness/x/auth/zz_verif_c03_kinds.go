package auth

import (
	"bytes"

	"github.com/pokt-network/posmint/crypto"
	sdk "github.com/pokt-network/posmint/types"
	"github.com/pokt-network/posmint/x/auth/types"
	postypes "github.com/pokt-network/posmint/x/pos/types"
	zz "github.com/pokt-network/posmint/zzverif"
)

// vKindMsg builds the k-th pos message whose declared signer is the owner of pub.
func vKindMsg(k int, pub crypto.PublicKey, other sdk.Address) sdk.Msg {
	signer := sdk.Address(pub.Address())
	switch k {
	case 0:
		return postypes.MsgSend{FromAddress: signer, ToAddress: other, Amount: sdk.NewInt(5)}
	case 1:
		return postypes.MsgStake{PubKey: pub, Value: sdk.NewInt(1000000)}
	case 2:
		return postypes.MsgBeginUnstake{Address: signer}
	}
	return postypes.MsgUnjail{ValidatorAddr: signer}
}

var vKindNames = []string{"send", "stake_validator", "begin_unstaking_validator", "unjail"}

// VerifC03_MessageKinds: every pos message type through the ante handler: the declared signer is the one the
// message names (From / owner of PubKey / validator address), the required fee is base(type) x multiplier(type)
// with per-type base fees and a multiplier list that names one type (the others fall back to the default), and a
// message swapped for another type (same signer) after signing is rejected.
func VerifC03_MessageKinds() {
	a := vNewAnte()
	signerPriv, signerPub := vKeyPair(0)
	attackerPriv, attackerPub := vKeyPair(1)
	signer := sdk.Address(signerPub.Address())
	attacker := sdk.Address(attackerPub.Address())
	a.fund(signer, sdk.NewInt(1<<40), nil)
	a.fund(attacker, sdk.NewInt(1<<40), attackerPub)

	kind := zz.Choice("kind", 4)
	bases := [4]int64{zz.Int64("base.send", 0, 100000), zz.Int64("base.stake", 0, 100000), zz.Int64("base.unstake", 0, 100000), zz.Int64("base.unjail", 0, 100000)}
	postypes.PosFeeMap = map[string]int64{}
	for i, n := range vKindNames {
		postypes.PosFeeMap[n] = bases[i]
	}
	listed := zz.Choice("listed_kind", 4)
	multListed, multDefault := zz.Int64("mult.listed", 0, 100), zz.Int64("mult.default", 0, 100)
	// governance can set any int64 multiplier: some huge ones (base x multiplier beyond 2^63 and beyond 2^64)
	switch zz.Choice("huge_multiplier", 4) {
	case 1:
		multDefault, multListed = 1<<60, 1<<60
	case 2:
		multDefault, multListed = 1844674407370956, 1844674407370956
	case 3:
		multDefault, multListed = 1<<62+12345, 1<<53+1
	}
	p := a.ak.GetParams(a.ctx)
	p.FeeMultiplier = types.FeeMultipliers{FeeMultis: []types.FeeMultiplier{{Key: vKindNames[listed], Multiplier: multListed}}, Default: multDefault}
	a.ak.SetParams(a.ctx, p)

	msg := vKindMsg(kind, signerPub, attacker)
	zz.Assert("C03.kinds.declared-signer", bytes.Equal(msg.GetSigner(), signer))
	fee := sdk.NewIntFromBigInt(zz.Big("fee", sdk.NewInt(0).BigInt(), sdk.NewInt(1<<30).BigInt()))
	feeCoins := sdk.NewCoins()
	if !fee.IsZero() {
		feeCoins = vFee(fee)
	}
	entropy := zz.Int64("entropy", 1, 1<<62)
	signedBytes, err := types.StdSignBytes(a.ctx.ChainID(), entropy, feeCoins, msg, "")
	if err != nil {
		panic(err)
	}
	who := zz.Choice("signed_by", 2)
	var sig []byte
	var sigKey crypto.PublicKey
	if who == 0 {
		sig, _ = signerPriv.Sign(signedBytes)
		sigKey = signerPub
	} else {
		sig, _ = attackerPriv.Sign(signedBytes)
		sigKey = attackerPub
	}
	tx := types.NewStdTx(msg, feeCoins, types.StdSignature{PublicKey: sigKey, Signature: sig}, "", entropy)
	swapped := zz.Choice("swap_kind_after_signing", 2) == 1
	submitted := kind
	if swapped {
		submitted = (kind + 1 + zz.Choice("swap_to", 3)) % 4
		tx.Msg = vKindMsg(submitted, signerPub, attacker)
	}
	zz.SetEnv("txindex.contains", false)
	tmNode, closeNode := vNode()
	defer closeNode()
	preSigner, preCollector := a.bal(signer), a.bal(a.ak.GetModuleAddress(FeeCollectorName))
	_, res, abort := NewAnteHandler(a.ak)(a.ctx, tx, []byte("tx-bytes"), tmNode, false)
	postSigner, postCollector := a.bal(signer), a.bal(a.ak.GetModuleAddress(FeeCollectorName))
	if !abort {
		zz.Reach("C03.kinds.accepted")
		zz.Assert("C03.kinds.accept.result-ok", res.IsOK())
		zz.Assert("C03.kinds.accept.signed-by-declared-signer", who == 0)
		zz.Assert("C03.kinds.accept.message-is-the-signed-one", !swapped)
		m := multDefault
		if submitted == listed {
			m = multListed
		}
		need := sdk.NewInt(bases[submitted]).Mul(sdk.NewInt(m))
		zz.Assert("C03.kinds.accept.fee-at-least-required-for-this-type", fee.GTE(need))
		zz.Assert("C03.kinds.accept.fee-moved-signer-to-collector", preSigner.Sub(postSigner).Equal(fee) && postCollector.Sub(preCollector).Equal(fee))
	} else {
		zz.Assert("C03.kinds.reject.no-balance-change", postSigner.Equal(preSigner) && postCollector.Equal(preCollector))
	}
	zz.Reach("C03.kinds.end")
}

// VerifC03_ForeignMultisigKey: a victim's plain account is the declared signer; the signature carries a multisignature
// key (flat or nested) made of the attacker's keys, validly signed by them: rejected, the victim pays nothing.
func VerifC03_ForeignMultisigKey() {
	a := vNewAnte()
	_, victimPub := vKeyPair(0)
	p1, k1 := vKeyPair(1)
	p2, k2 := vKeyPair(2)
	victim := sdk.Address(victimPub.Address())
	a.fund(victim, sdk.NewInt(1<<40), victimPub)
	postypes.PosFeeMap = map[string]int64{"send": 10}
	msg := postypes.MsgSend{FromAddress: victim, ToAddress: sdk.Address(k1.Address()), Amount: sdk.NewInt(777)}
	fee := vFee(sdk.NewInt(1000))
	sb, err := types.StdSignBytes(a.ctx.ChainID(), 5, fee, msg, "")
	if err != nil {
		panic(err)
	}
	s1, _ := p1.Sign(sb)
	s2, _ := p2.Sign(sb)
	inner := crypto.PublicKeyMultiSignature{PublicKeys: []crypto.PublicKey{k1, k2}}
	innerSig := crypto.MultiSignature{Sigs: [][]byte{s1, s2}}
	var key crypto.PublicKey = inner
	sig := innerSig.Marshal()
	if zz.Choice("nested", 2) == 1 {
		key = crypto.PublicKeyMultiSignature{PublicKeys: []crypto.PublicKey{inner, k1}}
		outer := crypto.MultiSignature{Sigs: [][]byte{innerSig.Marshal(), s1}}
		sig = outer.Marshal()
	}
	tx := types.NewStdTx(msg, fee, types.StdSignature{PublicKey: key, Signature: sig}, "", 5)
	zz.SetEnv("txindex.contains", false)
	tmNode, closeNode := vNode()
	defer closeNode()
	pre := a.bal(victim)
	_, _, abort := NewAnteHandler(a.ak)(a.ctx, tx, []byte("tx-bytes-3"), tmNode, false)
	zz.Assert("C03.foreign-multisig.rejected", abort)
	zz.Assert("C03.foreign-multisig.victim-pays-nothing", a.bal(victim).Equal(pre))
	zz.Reach("C03.foreign-multisig.end")
}

// VerifC03_FeeFollowsParameterChangeWithinBlock: one ante handler value serves every transaction of the node; when
// governance raises the fee multiplier between two transactions of the same block, the second one must pay the new
// required fee.
func VerifC03_FeeFollowsParameterChangeWithinBlock() {
	a := vNewAnte()
	priv, pub := vKeyPair(0)
	signer := sdk.Address(pub.Address())
	a.fund(signer, sdk.NewInt(1<<40), pub)
	postypes.PosFeeMap = map[string]int64{"send": 10}
	h := NewAnteHandler(a.ak)
	mk := func(entropy int64, fee int64) types.StdTx {
		msg := postypes.MsgSend{FromAddress: signer, ToAddress: sdk.Address(make([]byte, 20)), Amount: sdk.NewInt(1)}
		fc := vFee(sdk.NewInt(fee))
		sb, err := types.StdSignBytes(a.ctx.ChainID(), entropy, fc, msg, "")
		if err != nil {
			panic(err)
		}
		s, _ := priv.Sign(sb)
		return types.NewStdTx(msg, fc, types.StdSignature{PublicKey: pub, Signature: s}, "", entropy)
	}
	zz.SetEnv("txindex.contains", false)
	tmNode, closeNode := vNode()
	defer closeNode()
	_, _, abort1 := h(a.ctx, mk(1, 10), []byte("t1"), tmNode, false)
	zz.Assert("C03.param-change.first-tx-accepted", !abort1)
	// governance raises the default multiplier (same block height)
	newMult := zz.Int64("new_multiplier", 2, 50)
	p := a.ak.GetParams(a.ctx)
	p.FeeMultiplier = types.FeeMultipliers{Default: newMult}
	a.ak.SetParams(a.ctx, p)
	fee2 := zz.Int64("fee2", 0, 1000)
	_, _, abort2 := h(a.ctx, mk(2, fee2), []byte("t2"), tmNode, false)
	if !abort2 {
		zz.Assert("C03.param-change.second-tx-pays-the-new-fee", fee2 >= 10*newMult)
	}
	zz.Reach("C03.param-change.end")
}
