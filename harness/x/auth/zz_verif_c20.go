package auth

import (
	sdk "github.com/pokt-network/posmint/types"
	"github.com/pokt-network/posmint/x/auth/types"
	postypes "github.com/pokt-network/posmint/x/pos/types"
	zz "github.com/pokt-network/posmint/zzverif"
)

// VerifC20_SignBytes: the sign bytes of two transactions are equal iff chain id, entropy, fee, memo and message
// content are equal - every signed field takes part, over the full int64 range of the entropy.
// (Codec output is an injective token over the encoded value; encoding/json numbers passing through SortJSON are
// modelled with their float64 rounding, amino's JSON writes 64-bit integers as strings.)
func VerifC20_SignBytes() {
	type doc struct {
		chain   string
		entropy int64
		fee     sdk.Coins
		memo    string
		msg     postypes.MsgSend
	}
	from := sdk.Address(zz.Bytes("from", 20))
	to := sdk.Address(make([]byte, 20))
	mk := func(tag string) doc {
		var d doc
		d.chain = []string{"chain-a", "chain-b"}[zz.Choice(tag+".chain", 2)]
		d.entropy = zz.Int64(tag+".entropy", -1<<63, 1<<63-1)
		f := zz.Int64(tag+".fee", 0, 1<<62)
		if f == 0 {
			d.fee = sdk.NewCoins()
		} else {
			d.fee = sdk.NewCoins(sdk.NewCoin(sdk.DefaultStakeDenom, sdk.NewInt(f)))
		}
		d.memo = string(zz.Bytes(tag+".memo", zz.Choice(tag+".memolen", 3)))
		d.msg = postypes.MsgSend{FromAddress: from, ToAddress: to, Amount: sdk.NewInt(zz.Int64(tag+".amount", 0, 1<<62))}
		return d
	}
	a, b := mk("a"), mk("b")
	sa, ea := types.StdSignBytes(a.chain, a.entropy, a.fee, a.msg, a.memo)
	sb, eb := types.StdSignBytes(b.chain, b.entropy, b.fee, b.msg, b.memo)
	zz.Assert("C20.signbytes.no-error", ea == nil && eb == nil)
	same := zz.And(zz.And(a.chain == b.chain, a.entropy == b.entropy),
		zz.And(zz.And(a.fee.AmountOf(sdk.DefaultStakeDenom).Equal(b.fee.AmountOf(sdk.DefaultStakeDenom)), a.memo == b.memo),
			a.msg.Amount.Equal(b.msg.Amount)))
	zz.Assert("C20.signbytes.equal-iff-same-content", zz.BytesEqual(sa, sb) == same)
	// determinism: building them again gives the same bytes
	sa2, _ := types.StdSignBytes(a.chain, a.entropy, a.fee, a.msg, a.memo)
	zz.Assert("C20.signbytes.deterministic", zz.BytesEqual(sa, sa2))
	zz.Reach("C20.signbytes.end")
}

// VerifC20_VerifierSignBytesCoverMemo: the sign bytes the ante handler checks a signature against (GetSignBytes of
// the submitted transaction) cover every byte of the memo: two transactions whose memos differ - also only in leading
// or trailing white space - have different sign bytes; equal memos give equal sign bytes.
func VerifC20_VerifierSignBytesCoverMemo() {
	from := sdk.Address(make([]byte, 20))
	msg := postypes.MsgSend{FromAddress: from, ToAddress: from, Amount: sdk.NewInt(1)}
	fee := sdk.NewCoins(sdk.NewCoin(sdk.DefaultStakeDenom, sdk.NewInt(10)))
	memos := []string{"m", " m", "m ", "m\n", "\tm", "", " "}
	i, j := zz.Choice("memo1", len(memos)), zz.Choice("memo2", len(memos))
	t1 := types.NewStdTx(msg, fee, types.StdSignature{}, memos[i], 7)
	t2 := types.NewStdTx(msg, fee, types.StdSignature{}, memos[j], 7)
	b1, e1 := GetSignBytes("c", t1)
	b2, e2 := GetSignBytes("c", t2)
	zz.Assert("C20.verifier-signbytes.no-error", e1 == nil && e2 == nil)
	zz.Assert("C20.verifier-signbytes.equal-iff-same-memo", zz.BytesEqual(b1, b2) == (i == j))
	// symbolic memo bytes as well
	m3 := string(zz.Bytes("memo3", 2))
	t3 := types.NewStdTx(msg, fee, types.StdSignature{}, m3, 7)
	b3, _ := GetSignBytes("c", t3)
	zz.Assert("C20.verifier-signbytes.symbolic-memo", zz.BytesEqual(b1, b3) == (memos[i] == m3))
	zz.Reach("C20.verifier-signbytes.end")
}
