// Package vstore: a small in-memory KVStore used as the leaf store under the
// real wrappers (prefix, gaskv, tracekv, cachekv, rootmulti ...) in /verif harnesses.
// Plain Go: it runs both under the symbolic engine and natively in replays.
// Semantics follow the documented KVStore contract and IAVL's iterator behaviour
// (an iterator walks a snapshot taken when it was created).
package vstore

import (
	"bytes"
	"io"

	"github.com/pokt-network/posmint/store/types"
	zz "github.com/pokt-network/posmint/zzverif"
)

type KV struct{ K, V []byte }

type Mem struct {
	E    []KV  // unsorted, no duplicate keys
	Ops  []string // log of operations received (for trace/ordering checks)
	Sets int
}

var _ types.KVStore = (*Mem)(nil)

func New() *Mem { return &Mem{} }

func cp(b []byte) []byte {
	if b == nil {
		return nil
	}
	return append([]byte{}, b...)
}

func (m *Mem) find(key []byte) int {
	for i := range m.E {
		if bytes.Equal(m.E[i].K, key) {
			return i
		}
	}
	return -1
}

func (m *Mem) GetStoreType() types.StoreType { return types.StoreTypeDB }
func (m *Mem) CacheWrap() types.CacheWrap    { panic("vstore.Mem: CacheWrap not supported here") }
func (m *Mem) CacheWrapWithTrace(io.Writer, types.TraceContext) types.CacheWrap {
	panic("vstore.Mem: CacheWrapWithTrace not supported here")
}

func (m *Mem) Get(key []byte) []byte {
	m.Ops = append(m.Ops, "get")
	if i := m.find(key); i >= 0 {
		return cp(m.E[i].V)
	}
	return nil
}

func (m *Mem) Has(key []byte) bool {
	m.Ops = append(m.Ops, "has")
	return m.find(key) >= 0
}

func (m *Mem) Set(key, value []byte) {
	m.Ops = append(m.Ops, "set")
	m.Sets++
	if i := m.find(key); i >= 0 {
		m.E[i].V = cp(value)
		return
	}
	m.E = append(m.E, KV{cp(key), cp(value)})
}

func (m *Mem) Delete(key []byte) {
	m.Ops = append(m.Ops, "delete")
	if i := m.find(key); i >= 0 {
		m.E = append(m.E[:i:i], m.E[i+1:]...)
	}
}

// InDomain: start <= key < end with nil meaning unbounded.
func InDomain(key, start, end []byte) bool {
	if start != nil && bytes.Compare(key, start) < 0 {
		return false
	}
	if end != nil && bytes.Compare(key, end) >= 0 {
		return false
	}
	return true
}

// Sorted returns the entries inside [start,end) in ascending key order (copy).
func (m *Mem) Sorted(start, end []byte) []KV {
	var out []KV
	for _, e := range m.E {
		if InDomain(e.K, start, end) {
			// insertion sort
			j := len(out)
			out = append(out, KV{})
			for j > 0 && bytes.Compare(out[j-1].K, e.K) > 0 {
				out[j] = out[j-1]
				j--
			}
			out[j] = KV{cp(e.K), cp(e.V)}
		}
	}
	return out
}

type iter struct {
	items      []KV
	pos        int
	start, end []byte
}

func (m *Mem) Iterator(start, end []byte) types.Iterator {
	m.Ops = append(m.Ops, "iterator")
	return &iter{items: m.Sorted(start, end), start: start, end: end}
}

func (m *Mem) ReverseIterator(start, end []byte) types.Iterator {
	m.Ops = append(m.Ops, "reverseiterator")
	s := m.Sorted(start, end)
	for i, j := 0, len(s)-1; i < j; i, j = i+1, j-1 {
		s[i], s[j] = s[j], s[i]
	}
	return &iter{items: s, start: start, end: end}
}

func (it *iter) Domain() ([]byte, []byte) { return it.start, it.end }
func (it *iter) Valid() bool              { return it.pos < len(it.items) }
func (it *iter) Next() {
	if !it.Valid() {
		panic("vstore: Next on invalid iterator")
	}
	it.pos++
}
func (it *iter) Key() []byte {
	if !it.Valid() {
		panic("vstore: Key on invalid iterator")
	}
	return cp(it.items[it.pos].K)
}
func (it *iter) Value() []byte {
	if !it.Valid() {
		panic("vstore: Value on invalid iterator")
	}
	return cp(it.items[it.pos].V)
}
func (it *iter) Close() {}

// Clone returns an independent copy (for before/after comparisons).
func (m *Mem) Clone() *Mem {
	c := &Mem{}
	for _, e := range m.E {
		c.E = append(c.E, KV{cp(e.K), cp(e.V)})
	}
	return c
}

// SameContent reports whether two stores hold exactly the same key/value pairs.
func SameContent(a, b *Mem) bool {
	if len(a.E) != len(b.E) {
		return false
	}
	for _, e := range a.E {
		j := b.find(e.K)
		if j < 0 || !bytes.Equal(b.E[j].V, e.V) {
			return false
		}
	}
	return true
}

// Drain reads an iterator to its end.
func Drain(it types.Iterator) []KV {
	var out []KV
	for ; it.Valid(); it.Next() {
		out = append(out, KV{it.Key(), it.Value()})
	}
	it.Close()
	return out
}

func EqualKVs(a, b []KV) bool {
	if len(a) != len(b) {
		return false
	}
	for i := range a {
		if !bytes.Equal(a[i].K, b[i].K) || !bytes.Equal(a[i].V, b[i].V) {
			return false
		}
	}
	return true
}

// ---- non-forking oracles (each returns one boolean term under the engine) ----

// InDomainS is InDomain without branching on the key bytes.
func InDomainS(key, start, end []byte) bool {
	ok := true
	if start != nil {
		ok = zz.And(ok, zz.Not(zz.BytesLess(key, start)))
	}
	if end != nil {
		ok = zz.And(ok, zz.BytesLess(key, end))
	}
	return ok
}

// SameContentS: a and b hold exactly the same key/value pairs (keys unique in each).
func SameContentS(a, b *Mem) bool {
	if len(a.E) != len(b.E) {
		return false
	}
	ok := true
	for _, e := range a.E {
		found := false
		for _, f := range b.E {
			found = zz.Or(found, zz.And(zz.BytesEqual(e.K, f.K), zz.BytesEqual(e.V, f.V)))
		}
		ok = zz.And(ok, found)
	}
	return ok
}

// GetS: value v (nil = absent) is what m holds under key.
func (m *Mem) GetS(key, v []byte) bool {
	present := false
	match := false
	for _, e := range m.E {
		eq := zz.BytesEqual(e.K, key)
		present = zz.Or(present, eq)
		if v != nil {
			match = zz.Or(match, zz.And(eq, zz.BytesEqual(e.V, v)))
		}
	}
	if v == nil {
		return zz.Not(present)
	}
	return match
}

// IterationOfS: got is exactly the content of m inside [start,end), in ascending (or descending) key order.
func (m *Mem) IterationOfS(got []KV, start, end []byte, ascending bool) bool {
	ok := true
	for i := 0; i+1 < len(got); i++ {
		if ascending {
			ok = zz.And(ok, zz.BytesLess(got[i].K, got[i+1].K))
		} else {
			ok = zz.And(ok, zz.BytesLess(got[i+1].K, got[i].K))
		}
	}
	for _, g := range got {
		found := false
		for _, e := range m.E {
			found = zz.Or(found, zz.And(zz.BytesEqual(g.K, e.K), zz.BytesEqual(g.V, e.V)))
		}
		ok = zz.And(ok, zz.And(found, InDomainS(g.K, start, end)))
	}
	for _, e := range m.E {
		found := false
		for _, g := range got {
			found = zz.Or(found, zz.BytesEqual(g.K, e.K))
		}
		ok = zz.And(ok, zz.Implies(InDomainS(e.K, start, end), found))
	}
	return ok
}
