// Package vapp holds the whole-application harnesses of /verif (overlay only; it imports every module of the
// repository, so it cannot live inside one of them without creating import cycles in their test binaries).
package vapp

// The whole application: the REAL BaseApp over the REAL rootmulti store with tendermint/iavl trees (tm-db MemDB), the real
// auth ante handler and the real auth / pos / gov modules wired through the real module manager - fed ABCI requests
// (InitChain with a genesis document, BeginBlock with votes and evidence, DeliverTx with signed transactions, EndBlock,
// Commit) the way tendermint feeds them.

import (
	"bytes"
	"encoding/hex"
	"encoding/json"
	"math/big"
	"net/http"
	"net/http/httptest"
	"reflect"
	"time"
	"unsafe"

	abci "github.com/tendermint/tendermint/abci/types"
	tmcfg "github.com/tendermint/tendermint/config"
	"github.com/tendermint/tendermint/libs/log"
	"github.com/tendermint/tendermint/node"
	tmtypes "github.com/tendermint/tendermint/types"
	dbm "github.com/tendermint/tm-db"

	"github.com/pokt-network/posmint/baseapp"
	"github.com/pokt-network/posmint/codec"
	"github.com/pokt-network/posmint/crypto"
	"github.com/pokt-network/posmint/store"
	sdk "github.com/pokt-network/posmint/types"
	"github.com/pokt-network/posmint/types/module"
	"github.com/pokt-network/posmint/x/auth"
	authexported "github.com/pokt-network/posmint/x/auth/exported"
	authkeeper "github.com/pokt-network/posmint/x/auth/keeper"
	authtypes "github.com/pokt-network/posmint/x/auth/types"
	"github.com/pokt-network/posmint/x/gov"
	"github.com/pokt-network/posmint/x/gov/keeper"
	"github.com/pokt-network/posmint/x/gov/types"
	"github.com/pokt-network/posmint/x/pos"
	poskeeper "github.com/pokt-network/posmint/x/pos/keeper"
	postypes "github.com/pokt-network/posmint/x/pos/types"
	zz "github.com/pokt-network/posmint/zzverif"
)

// five fixed, real ed25519 key pairs (seeds 01.., 02.., ...)
var vAppPrivHex = []string{
	"0100000000000000000000000000000000000000000000000000000000000000cecc1507dc1ddd7295951c290888f095adb9044d1b73d696e6df065d683bd4fc",
	"02000000000000000000000000000000000000000000000000000000000000006b79c57e6a095239282c04818e96112f3f03a4001ba97a564c23852a3f1ea5fc",
	"0300000000000000000000000000000000000000000000000000000000000000dadbd184a2d526f1ebdd5c06fdad9359b228759b4d7f79d66689fa254aad8546",
	"04000000000000000000000000000000000000000000000000000000000000009be3287795907809407e14439ff198d5bfc7dce6f9bc743cb369146f610b4801",
	"0500000000000000000000000000000000000000000000000000000000000000f4bd46521ce7b57899ae6f4ca09eddec689327a86a2232d4a3f2a4f39ac68a9e",
}

func vAppKey(i int) (crypto.Ed25519PrivateKey, crypto.Ed25519PublicKey) {
	raw, _ := hex.DecodeString(vAppPrivHex[i])
	var priv crypto.Ed25519PrivateKey
	copy(priv[:], raw)
	var pub crypto.Ed25519PublicKey
	copy(pub[:], raw[32:])
	return priv, pub
}

// vAppNode: the ante handler asks the node's RPC endpoint whether the tx hash is already indexed (always "no" here).
func vAppNode() (*node.Node, func()) {
	zz.SetEnv("txindex.contains", false)
	if zz.Symbolic() {
		return nil, func() {}
	}
	srv := httptest.NewServer(http.HandlerFunc(func(w http.ResponseWriter, r *http.Request) {
		w.Header().Set("Content-Type", "application/json")
		var req struct {
			ID json.RawMessage `json:"id"`
		}
		json.NewDecoder(r.Body).Decode(&req)
		json.NewEncoder(w).Encode(map[string]interface{}{"jsonrpc": "2.0", "id": req.ID, "error": map[string]interface{}{"code": -32603, "message": "Internal error", "data": "tx not found"}})
	}))
	n := &node.Node{}
	cfg := tmcfg.DefaultConfig()
	cfg.RPC.ListenAddress = srv.URL
	f := reflect.ValueOf(n).Elem().FieldByName("config")
	reflect.NewAt(f.Type(), unsafe.Pointer(f.UnsafeAddr())).Elem().Set(reflect.ValueOf(cfg))
	return n, srv.Close
}

type vFullApp struct {
	app *baseapp.BaseApp
	cdc *codec.Codec
	ak  authkeeper.Keeper
	pk  poskeeper.Keeper
	gk  keeper.Keeper
	mm  *module.Manager
}

// vOpenFull builds the application over db the way an application constructor does and loads the latest version.
func vOpenFull(db dbm.DB, n *node.Node, keepAll bool) *vFullApp {
	v := &vFullApp{}
	cdc := codec.New()
	auth.RegisterCodec(cdc)
	postypes.RegisterCodec(cdc)
	types.RegisterCodec(cdc)
	sdk.RegisterCodec(cdc)
	codec.RegisterCrypto(cdc)
	v.cdc = cdc
	var opts []func(*baseapp.BaseApp)
	if keepAll {
		opts = append(opts, baseapp.SetPruning(store.PruneNothing))
	}
	app := baseapp.NewBaseApp("verif-app", log.NewNopLogger(), db, auth.DefaultTxDecoder(cdc), opts...)
	app.SetAppVersion("0.0.1")
	app.SetTendermintNode(n)
	keyAcc := sdk.NewKVStoreKey(auth.StoreKey)
	keyPos := sdk.NewKVStoreKey(postypes.StoreKey)
	keyGov := sdk.NewKVStoreKey(types.StoreKey)
	tkeyGov := sdk.NewTransientStoreKey("transient_gov")
	maccPerms := map[string][]string{
		auth.FeeCollectorName:   nil,
		postypes.StakedPoolName: {auth.Burner, auth.Staking, auth.Minter},
		postypes.ModuleName:     {auth.Burner, auth.Staking, auth.Minter},
		types.DAOAccountName:    {auth.Burner, auth.Staking, auth.Minter},
	}
	authSpace := sdk.NewSubspace(auth.DefaultParamspace)
	posSpace := sdk.NewSubspace(poskeeper.DefaultParamspace)
	v.ak = authkeeper.NewKeeper(cdc, keyAcc, authSpace, maccPerms)
	v.pk = poskeeper.NewKeeper(cdc, keyPos, v.ak, posSpace, poskeeper.DefaultParamspace)
	v.gk = keeper.NewKeeper(cdc, keyGov, tkeyGov, types.DefaultCodespace, v.ak, authSpace, posSpace)
	v.mm = module.NewManager(auth.NewAppModule(v.ak), pos.NewAppModule(v.pk, v.ak), gov.NewAppModule(v.gk))
	v.mm.SetOrderBeginBlockers(postypes.ModuleName, types.ModuleName)
	v.mm.SetOrderEndBlockers(postypes.ModuleName, types.ModuleName)
	v.mm.SetOrderInitGenesis(postypes.ModuleName, auth.ModuleName, types.ModuleName) // auth derives the supply from all accounts, the staked pool included
	v.mm.RegisterRoutes(app.Router(), app.QueryRouter())
	app.SetInitChainer(func(ctx sdk.Ctx, req abci.RequestInitChain) abci.ResponseInitChain {
		var gs map[string]json.RawMessage
		if err := json.Unmarshal(req.AppStateBytes, &gs); err != nil {
			panic(err)
		}
		return v.mm.InitGenesis(ctx, gs)
	})
	app.SetBeginBlocker(func(ctx sdk.Ctx, req abci.RequestBeginBlock) abci.ResponseBeginBlock {
		return v.mm.BeginBlock(ctx, req)
	})
	app.SetEndBlocker(func(ctx sdk.Ctx, req abci.RequestEndBlock) abci.ResponseEndBlock { return v.mm.EndBlock(ctx, req) })
	app.SetAnteHandler(auth.NewAnteHandler(v.ak))
	app.MountStores(keyAcc, keyPos, keyGov, sdk.ParamsKey, sdk.ParamsTKey, tkeyGov)
	if err := app.LoadLatestVersion(keyAcc); err != nil {
		panic(err)
	}
	v.app = app
	return v
}

const vAppChain = "verif-chain"

var vAppT0 = time.Unix(1600000000, 0).UTC()

// vAppGenesis: accounts 0..4 are funded accounts with their keys, 3 and 4 are staked validators as well.
func vAppGenesis(cdc *codec.Codec, daoOwner sdk.Address, daoTokens int64) []byte {
	var accs authtypes.Accounts
	for i := 0; i < 5; i++ {
		_, pub := vAppKey(i)
		var acc authexported.Account = &authtypes.BaseAccount{Address: sdk.Address(pub.Address()), PubKey: pub,
			Coins: sdk.NewCoins(sdk.NewCoin(sdk.DefaultStakeDenom, sdk.NewInt(100000000)))}
		accs = append(accs, acc)
	}
	ag := authtypes.NewGenesisState(authtypes.DefaultParams(), accs)
	pg := postypes.DefaultGenesisState()
	for i := 3; i < 5; i++ {
		_, pub := vAppKey(i)
		val := postypes.NewValidator(sdk.Address(pub.Address()), pub, sdk.NewInt(int64(20000000+1000000*i)))
		val.Status = sdk.Staked
		pg.Validators = append(pg.Validators, val)
	}
	acl := types.ACL{}
	for _, k := range []string{"auth/MaxMemoCharacters", "auth/TxSigLimit", "auth/FeeMultipliers", "gov/acl", "gov/daoOwner", "gov/upgrade",
		"pos/UnstakingTime", "pos/MaxValidators", "pos/StakeDenom", "pos/StakeMinimum", "pos/ProposerRewardPercentage", "pos/MaxEvidenceAge",
		"pos/SignedBlocksWindow", "pos/MinSignedPerWindow", "pos/DowntimeJailDuration", "pos/SlashFractionDoubleSign", "pos/SlashFractionDowntime"} {
		acl.SetOwner(k, daoOwner)
	}
	gg := types.NewGenesisState(types.Params{ACL: acl, DAOOwner: daoOwner, Upgrade: types.Upgrade{}}, sdk.NewInt(daoTokens))
	gs := map[string]json.RawMessage{
		auth.ModuleName:     cdc.MustMarshalJSON(ag),
		postypes.ModuleName: cdc.MustMarshalJSON(pg),
		types.ModuleName:    cdc.MustMarshalJSON(gg),
	}
	bz, err := json.Marshal(gs)
	if err != nil {
		panic(err)
	}
	return bz
}

// vAppTx: a signed standard transaction (signed by key i unless forgedBy >= 0), in wire form.
func vAppTx(cdc *codec.Codec, msg sdk.Msg, signer int, forgedBy int, entropy int64) []byte {
	fee := sdk.NewCoins(sdk.NewCoin(sdk.DefaultStakeDenom, sdk.NewInt(100000)))
	sb, err := authtypes.StdSignBytes(vAppChain, entropy, fee, msg, "")
	if err != nil {
		panic(err)
	}
	k := signer
	if forgedBy >= 0 {
		k = forgedBy
	}
	priv, _ := vAppKey(k)
	_, pub := vAppKey(signer)
	sig, err := priv.Sign(sb)
	if err != nil {
		panic(err)
	}
	tx := authtypes.NewStdTx(msg, fee, authtypes.StdSignature{PublicKey: pub, Signature: sig}, "", entropy)
	bz, err := cdc.MarshalBinaryLengthPrefixed(tx)
	if err != nil {
		panic(err)
	}
	return bz
}

var vStakeAmount sdk.Int // what the stake transaction of block 2 (kind 1) stakes

type vBlockIn struct {
	h        int64
	proposer int // validator index 3 or 4
	signed3  bool
	signed4  bool
	evidence bool
	evAge    int64         // seconds between the infraction and this block
	evPower  int64         // the power tendermint reports for the offender
	late     time.Duration // extra time that passed before this block (block times are arbitrary but monotone)
	txs      [][]byte
}

type vBlockOut struct {
	begin   abci.ResponseBeginBlock
	deliver []abci.ResponseDeliverTx
	end     abci.ResponseEndBlock
	hash    []byte
	crashed bool // BeginBlock panicked (nothing recovers it: the process dies)
}

func (v *vFullApp) block(b vBlockIn) vBlockOut {
	var out vBlockOut
	_, p3 := vAppKey(3)
	_, p4 := vAppKey(4)
	_, pp := vAppKey(b.proposer)
	req := abci.RequestBeginBlock{Header: abci.Header{Height: b.h, ChainID: vAppChain, Time: vAppT0.Add(time.Duration(b.h)*time.Minute + b.late), ProposerAddress: pp.Address()}}
	if b.h > 1 {
		req.LastCommitInfo = abci.LastCommitInfo{Votes: []abci.VoteInfo{{Validator: abci.Validator{Address: p3.Address(), Power: 23}, SignedLastBlock: b.signed3}}}
		req.LastCommitInfo.Votes = append(req.LastCommitInfo.Votes, abci.VoteInfo{Validator: abci.Validator{Address: p4.Address(), Power: 24}, SignedLastBlock: b.signed4})
	}
	if b.evidence {
		req.ByzantineValidators = []abci.Evidence{{Type: tmtypes.ABCIEvidenceTypeDuplicateVote, Validator: abci.Validator{Address: p4.Address(), Power: b.evPower}, Height: b.h - 1, Time: vAppT0.Add(time.Duration(b.h)*time.Minute + b.late - time.Duration(b.evAge)*time.Second)}}
	}
	func() {
		defer func() {
			if r := recover(); r != nil {
				out.crashed = true
			}
		}()
		out.begin = v.app.BeginBlock(req)
	}()
	if out.crashed {
		return out
	}
	for _, tx := range b.txs {
		out.deliver = append(out.deliver, v.app.DeliverTx(abci.RequestDeliverTx{Tx: tx}))
	}
	out.end = v.app.EndBlock(abci.RequestEndBlock{Height: b.h})
	out.hash = v.app.Commit().Data
	return out
}

// vSameOut: the consensus-relevant parts of the responses (codes, data, events, gas, validator updates, app hash).
func vSameOut(a, b vBlockOut) bool {
	if !bytes.Equal(a.hash, b.hash) || len(a.hash) == 0 || len(a.deliver) != len(b.deliver) {
		return false
	}
	if !reflect.DeepEqual(a.begin.Events, b.begin.Events) || !reflect.DeepEqual(a.end.Events, b.end.Events) {
		return false
	}
	if !reflect.DeepEqual(a.end.ValidatorUpdates, b.end.ValidatorUpdates) {
		return false
	}
	for i := range a.deliver {
		x, y := a.deliver[i], b.deliver[i]
		if x.Code != y.Code || x.Codespace != y.Codespace || !bytes.Equal(x.Data, y.Data) || x.GasUsed != y.GasUsed || x.GasWanted != y.GasWanted || !reflect.DeepEqual(x.Events, y.Events) {
			return false
		}
	}
	return true
}

// vAppBlocks draws the ABCI history: three blocks with symbolic votes, an optional double-sign evidence and one
// transaction of a symbolic kind (send, stake, begin-unstake, DAO transfer by the owner / by a stranger, a forged
// signature, undecodable bytes) in block 2, and a follow-up transaction in block 3.
func vAppBlocks(cdc *codec.Codec, symbolic bool, symPower bool, oneVoteChoice bool, unjailInBlock3 bool, unstakeInBlock1 bool, fewKinds bool) ([]vBlockIn, int) {
	_, k0 := vAppKey(0)
	_, k1 := vAppKey(1)
	_, k2 := vAppKey(2)
	_, k4 := vAppKey(4)
	a0, a1, a2, a4 := sdk.Address(k0.Address()), sdk.Address(k1.Address()), sdk.Address(k2.Address()), sdk.Address(k4.Address())
	bs := []vBlockIn{{h: 1, proposer: 3, signed3: true, signed4: true}, {h: 2, proposer: 4, signed3: true, signed4: true}, {h: 3, proposer: 3, signed3: true, signed4: true}}
	bs[1].signed4 = zz.Choice("h2_val4_signed", 2) == 1
	if oneVoteChoice {
		bs[2].signed4 = bs[1].signed4
	} else {
		bs[2].signed4 = zz.Choice("h3_val4_signed", 2) == 1
	}
	bs[2].evidence = zz.Choice("h3_double_sign_evidence", 2) == 1
	if bs[2].evidence {
		bs[2].evAge = zz.Int64("evidence_age_seconds", 0, 400) // MaxEvidenceAge is 120 s by default: both sides of the limit
		bs[2].evPower = 24
		if symPower {
			bs[2].evPower = zz.Int64("evidence_power", 0, 1<<40) // the power tendermint reports need not be the current one
		}
	}
	amt1 := sdk.NewInt(7000000)
	if symbolic {
		amt1 = sdk.NewIntFromBigInt(zz.Big("h1_send_amount", big.NewInt(1), big.NewInt(50000000)))
	}
	bs[0].txs = [][]byte{vAppTx(cdc, postypes.MsgSend{FromAddress: a0, ToAddress: a1, Amount: amt1}, 0, -1, 1)}
	if unstakeInBlock1 {
		// validator 4 begins to unstake in the very first block after InitChain
		bs[0].txs = [][]byte{vAppTx(cdc, postypes.MsgBeginUnstake{Address: a4}, 4, -1, 1)}
	}
	var tx []byte
	kind := 0
	if fewKinds {
		kind = zz.Choice("h2_tx", 3) // send, stake, begin-unstake
	} else if !unstakeInBlock1 {
		kind = zz.Choice("h2_tx", 12)
	}
	switch kind {
	case 11: // the DAO owner tries to burn more than the DAO holds
		tx = vAppTx(cdc, types.MsgDAOTransfer{FromAddress: a0, Amount: sdk.NewInt(6000000), Action: types.DAOBurnString}, 0, -1, 2)
	case 10: // a validator that is not jailed asks to be unjailed
		tx = vAppTx(cdc, postypes.MsgUnjail{ValidatorAddr: a4}, 4, -1, 2)
	case 0:
		amt := sdk.NewInt(3000000)
		if symbolic {
			amt = sdk.NewIntFromBigInt(zz.Big("h2_send_amount", big.NewInt(1), big.NewInt(50000000)))
		}
		tx = vAppTx(cdc, postypes.MsgSend{FromAddress: a1, ToAddress: a2, Amount: amt}, 1, -1, 2)
	case 1:
		vStakeAmount = sdk.NewInt(30000000)
		if symbolic {
			vStakeAmount = sdk.NewIntFromBigInt(zz.Big("h2_stake_amount", big.NewInt(1000000), big.NewInt(60000000)))
		}
		tx = vAppTx(cdc, postypes.MsgStake{PubKey: k2, Value: vStakeAmount}, 2, -1, 2)
	case 2:
		tx = vAppTx(cdc, postypes.MsgBeginUnstake{Address: a4}, 4, -1, 2)
	case 3:
		tx = vAppTx(cdc, types.MsgDAOTransfer{FromAddress: a0, ToAddress: a1, Amount: sdk.NewInt(1000000), Action: types.DAOTransferString}, 0, -1, 2)
	case 4:
		tx = vAppTx(cdc, types.MsgDAOTransfer{FromAddress: a1, ToAddress: a1, Amount: sdk.NewInt(1000000), Action: types.DAOTransferString}, 1, -1, 2)
	case 5:
		tx = vAppTx(cdc, postypes.MsgSend{FromAddress: a1, ToAddress: a2, Amount: sdk.NewInt(3000000)}, 1, 2, 2)
	case 6:
		tx = vAppTx(cdc, postypes.MsgSend{FromAddress: a0, ToAddress: a1, Amount: sdk.NewInt(7000000)}, 0, -1, 1) // the transaction of block 1 again
	case 7:
		tx = vAppTx(cdc, postypes.MsgSend{FromAddress: a1, ToAddress: a2, Amount: sdk.NewInt(900000000)}, 1, -1, 2)
	case 8: // the owner of pos/MaxValidators lowers it to 1
		tx = vAppTx(cdc, types.MsgChangeParam{FromAddress: a0, ParamKey: "pos/MaxValidators", ParamVal: cdc.MustMarshalJSON(uint64(1))}, 0, -1, 2)
	case 9: // a stranger tries the same
		tx = vAppTx(cdc, types.MsgChangeParam{FromAddress: a1, ParamKey: "pos/MaxValidators", ParamVal: cdc.MustMarshalJSON(uint64(1))}, 1, -1, 2)
	}
	if kind == 2 || unstakeInBlock1 {
		// block 3 comes a symbolic time after block 2: before, at or past the unstaking time (21 days) of the validator that
		// began to unstake in block 2
		bs[2].late = time.Duration(zz.Int64("h3_seconds_later", 0, 23*24*3600)) * time.Second
	}
	// block 2: the transaction of the drawn kind, then an ordinary send that must go through whatever the first one did
	bs[1].txs = [][]byte{tx, vAppTx(cdc, postypes.MsgSend{FromAddress: a2, ToAddress: a0, Amount: sdk.NewInt(500000)}, 2, -1, 22)}
	bs[2].txs = [][]byte{vAppTx(cdc, postypes.MsgSend{FromAddress: a2, ToAddress: a0, Amount: sdk.NewInt(1000000)}, 2, -1, 3)}
	if unjailInBlock3 {
		// validator 4 asks to be unjailed in block 3: by then it is either not jailed or convicted (tombstoned) by the evidence
		bs[2].txs = [][]byte{vAppTx(cdc, postypes.MsgUnjail{ValidatorAddr: a4}, 4, -1, 3)}
	}
	return bs, kind
}

// state read back from the committed state of a running application
// (on a cache-wrapped branch that is thrown away: keeper reads create missing module accounts as a side effect, and the
// check state of this fork sits directly on the working stores)
func (v *vFullApp) view(b vBlockIn) sdk.Context {
	ctx, _ := v.app.NewContext(true, abci.Header{Height: b.h, ChainID: vAppChain, Time: vAppT0.Add(time.Duration(b.h)*time.Minute + b.late)}).CacheContext()
	return ctx
}

func (v *vFullApp) sumBalances(ctx sdk.Context) sdk.Int {
	sum := sdk.ZeroInt()
	for _, acc := range v.ak.GetAllAccounts(ctx) {
		sum = sum.Add(acc.GetCoins().AmountOf(sdk.DefaultStakeDenom))
	}
	return sum
}

func (v *vFullApp) sumStake(ctx sdk.Context) sdk.Int {
	sum := sdk.ZeroInt()
	for _, val := range v.pk.GetAllValidators(ctx) {
		if val.Status != sdk.Unstaked {
			sum = sum.Add(val.StakedTokens)
		}
	}
	return sum
}

// vTMSet: the model of tendermint's validator set the application's updates are applied to.
type vTMSet map[string]int64

func (s vTMSet) apply(ups []abci.ValidatorUpdate) bool {
	seen := map[string]bool{}
	for _, u := range ups {
		k := string(u.PubKey.Data)
		if seen[k] || u.Power < 0 {
			return false
		}
		seen[k] = true
		if u.Power == 0 {
			if _, ok := s[k]; !ok {
				return false
			}
			delete(s, k)
		} else {
			s[k] = u.Power
		}
	}
	return true
}

// matches: the set is exactly the MaxValidators highest-powered staked, not jailed validators with power floor(stake / 10^6)
// (ties do not occur here).
func (s vTMSet) matches(v *vFullApp, ctx sdk.Context) bool {
	type cand struct {
		key string
		pw  int64
	}
	var cs []cand
	for _, val := range v.pk.GetAllValidators(ctx) {
		if val.Status != sdk.Staked || val.Jailed {
			continue
		}
		pw := val.StakedTokens.Quo(sdk.NewInt(1000000)).Int64()
		if pw == 0 {
			continue
		}
		cs = append(cs, cand{string(val.PublicKey.RawBytes()), pw})
	}
	for i := 1; i < len(cs); i++ {
		for j := i; j > 0 && cs[j].pw > cs[j-1].pw; j-- {
			cs[j], cs[j-1] = cs[j-1], cs[j]
		}
	}
	var limit uint64 // as stored, not through the keeper's own getter
	v.pk.Paramstore.Get(ctx, postypes.KeyMaxValidators, &limit)
	if max := int(limit); len(cs) > max {
		cs = cs[:max]
	}
	for _, c := range cs {
		if got, ok := s[c.key]; !ok || got != c.pw {
			return false
		}
	}
	return len(cs) == len(s)
}

// vFullRun: two replicas of the whole application run InitChain and the same three blocks; one of them is stopped after
// a symbolic height and rebuilt from its database.  The assertions of the property named by p are checked on the way.
func vFullRun(p string) {
	n, done := vAppNode()
	defer done()
	dbA, dbB := dbm.NewMemDB(), dbm.NewMemDB()
	// mode 1: every version is kept and the amounts of the transactions are symbolic; mode 0: the default pruning policy
	// (previous versions are released at every commit) with fixed amounts - releasing a version walks its orphaned nodes in
	// digest order, which is modelled for digests of concrete content only
	keepAll := zz.Choice("keep_all_versions_symbolic_amounts", 2) == 1
	a, b := vOpenFull(dbA, n, keepAll), vOpenFull(dbB, n, keepAll)
	_, k0 := vAppKey(0)
	daoTokens := int64(5000000)
	if p == "C11" && zz.Choice("dao_starts_empty", 2) == 1 {
		daoTokens = 0
	}
	gen := vAppGenesis(a.cdc, sdk.Address(k0.Address()), daoTokens)
	ra := a.app.InitChain(abci.RequestInitChain{ChainId: vAppChain, Time: vAppT0, AppStateBytes: gen})
	rb := b.app.InitChain(abci.RequestInitChain{ChainId: vAppChain, Time: vAppT0, AppStateBytes: gen})
	if p == "C01" {
		zz.Assert("C01.full.same-initchain-validators", reflect.DeepEqual(ra.Validators, rb.Validators) && len(ra.Validators) == 2)
	}
	tm := vTMSet{}
	if p == "C05" || p == "C09" {
		zz.Assert(p+".full.initchain-batch-applicable", tm.apply(ra.Validators))
	}
	unstakeInBlock1 := p == "C06" && zz.Choice("begin_unstake_in_block_1", 2) == 1
	// (quick tier: the two-replica variant draws one vote pattern for both later blocks - it runs everything twice; the
	// slashing variant, whose symbolic reported power multiplies the paths, draws three transaction kinds; the supply
	// variant uses the reported power 24)
	blocks, kind := vAppBlocks(a.cdc, keepAll, p == "C07" || (p == "C02" && zz.Thorough()), p == "C01" && !zz.Thorough(), p == "C09", unstakeInBlock1, p == "C07" && !zz.Thorough())
	restartAfter := int64(0)
	if p == "C01" {
		restartAfter = int64(zz.Choice("restart_after", 4)) // 0 = never
	}
	var supply0, prevPool, prevSupply, supBefore sdk.Int
	vPassesAnte := kind != 5 // every transaction kind but the forged signature passes the ante handler and pays
	for _, blk := range blocks {
		if p == "C10" {
			// the mempool checks the transactions first (nothing of that may reach the fee collector)
			for _, tx := range blk.txs {
				a.app.CheckTx(abci.RequestCheckTx{Tx: tx})
			}
		}
		oa := a.block(blk)
		if oa.crashed {
			// BeginBlocker panics on evidence it is meant to ignore (here: expired) - the behaviour the repository's own
			// TestHandleDoubleSign pins down for tombstoned / unknown offenders; an observation (DESIGN.md section 6), the
			// process would die here on every replica alike
			zz.Assert(p+".full.only-ignorable-evidence-stops-the-node", blk.evidence && blk.evAge > 120)
			if p == "C01" {
				zz.Assert("C01.full.replicas-stop-alike", b.block(blk).crashed)
			}
			zz.Reach(p + ".full.beginblock-panics-on-expired-evidence")
			return
		}
		ctx := a.view(blk)
		// a block that carried expired evidence and did not stop the node has burned nothing
		supNow := a.ak.GetSupply(ctx).GetTotal().AmountOf(sdk.DefaultStakeDenom)
		if blk.evidence && blk.evAge > 120 {
			zz.Assert(p+".full.expired-evidence-burns-nothing", supNow.Equal(supBefore))
		}
		supBefore = supNow
		// which transactions execute is part of every claim below (and of the comparison with the native build)
		failsInHandler := kind == 4 || kind == 7 || kind == 9 || kind == 10 || kind == 11 || (kind == 3 && daoTokens == 0)
		okWanted := blk.h != 2 || (kind != 5 && !failsInHandler)
		if p == "C09" && blk.h == 3 {
			okWanted = false // an unjail request succeeds only for a jailed validator, and never once tombstoned
		}
		zz.Assert(p+".full.transactions-succeed-or-fail-as-expected", len(oa.deliver) == len(blk.txs) && (oa.deliver[0].Code == 0) == okWanted &&
			(len(oa.deliver) < 2 || oa.deliver[1].Code == 0))
		switch p {
		case "C11":
			// replica b gets the same blocks without the transaction that is going to be rejected
			nb := blk
			if blk.h == 2 && !okWanted {
				nb.txs = blk.txs[1:]
			}
			ob := b.block(nb)
			_, p1 := vAppKey(1)
			if kind == 10 {
				_, p1 = vAppKey(4) // the unjail request is validator 4's
			} else if kind == 11 || kind == 3 {
				_, p1 = vAppKey(0) // the burn / transfer request is the DAO owner's
			}
			payer := sdk.Address(p1.Address())
			if blk.h == 2 && !okWanted && vPassesAnte {
				// refused by its handler after the ante handler took the fee: the fee moved payer -> collector, nothing else
				bctx := b.view(blk)
				same := true
				for i := 0; i < 5; i++ {
					_, pi := vAppKey(i)
					ad := sdk.Address(pi.Address())
					d := b.ak.GetCoins(bctx, ad).AmountOf(sdk.DefaultStakeDenom).Sub(a.ak.GetCoins(ctx, ad).AmountOf(sdk.DefaultStakeDenom))
					if ad.Equals(payer) {
						same = same && d.Equal(sdk.NewInt(100000))
					} else {
						same = same && d.IsZero()
					}
				}
				// (counted before any keeper read that would create a missing module account on the throw-away branch)
				na, nb := len(a.ak.GetAllAccounts(ctx)), len(b.ak.GetAllAccounts(bctx))
				zz.Assert("C11.full.failed-handler-costs-the-fee-and-nothing-else", same &&
					a.gk.GetDAOTokens(ctx).Equal(b.gk.GetDAOTokens(bctx)) && a.pk.GetStakedTokens(ctx).Equal(b.pk.GetStakedTokens(bctx)) &&
					len(a.pk.GetAllValidators(ctx)) == len(b.pk.GetAllValidators(bctx)) && na == nb)
			} else if !failsInHandler || blk.h < 2 {
				// refused by the ante handler (or nothing refused): not a trace - same app hash as the replica that never saw it
				zz.Assert("C11.full.ante-rejected-transaction-leaves-no-trace", bytes.Equal(oa.hash, ob.hash))
			}
		case "C01":
			// replica b also serves mempool and query traffic the other replica never sees
			for _, tx := range blk.txs {
				b.app.CheckTx(abci.RequestCheckTx{Tx: tx})
			}
			for _, tx := range blk.txs {
				b.app.Query(abci.RequestQuery{Path: "/app/simulate", Data: tx})
			}
			b.app.Query(abci.RequestQuery{Path: "/custom/pos/validators", Data: nil})
			b.app.Query(abci.RequestQuery{Path: "/store/pos/key", Data: []byte{0x21}, Height: blk.h - 1})
			ob := b.block(blk)
			zz.Assert("C01.full.same-responses-and-hash", vSameOut(oa, ob))
			if blk.h == 1 {
				zz.Assert("C01.full.first-tx-executed", len(oa.deliver) == 1 && oa.deliver[0].Code == 0)
			}
			if blk.h == restartAfter {
				b = vOpenFull(dbB, n, keepAll)
				ib := b.app.Info(abci.RequestInfo{})
				zz.Assert("C01.full.restart.info", ib.LastBlockHeight == blk.h && bytes.Equal(ib.LastBlockAppHash, oa.hash))
			}
		case "C02":
			sup := a.ak.GetSupply(ctx).GetTotal().AmountOf(sdk.DefaultStakeDenom)
			zz.Assert("C02.full.supply==sum-of-balances", sup.Equal(a.sumBalances(ctx)))
			if blk.h == 1 {
				supply0 = sup
			} else if !blk.evidence {
				// no award, no slash, no DAO burn in these blocks: the total does not move
				zz.Assert("C02.full.supply-constant-without-mint-or-burn", sup.Equal(supply0))
			} else {
				zz.Assert("C02.full.slash-only-lowers-supply", sup.LTE(supply0))
			}
		case "C07":
			_, p4 := vAppKey(4)
			_, p3 := vAppKey(3)
			v4, found4 := a.pk.GetValidator(ctx, sdk.Address(p4.Address()))
			v3, _ := a.pk.GetValidator(ctx, sdk.Address(p3.Address()))
			sup := a.ak.GetSupply(ctx).GetTotal().AmountOf(sdk.DefaultStakeDenom)
			pool := a.pk.GetStakedTokens(ctx)
			if blk.evidence {
				// confirmed double-sign evidence inside the window: the offender's whole stake is burned from the pool
				// and from the supply, it is jailed, tombstoned and unstaked; validator 3 is untouched
				info, _ := a.pk.GetValidatorSigningInfo(ctx, sdk.Address(p4.Address()))
				zz.Assert("C07.full.doublesign-burns-entire-stake", found4 && v4.StakedTokens.IsZero() && v4.Status == sdk.Unstaked && v4.Jailed && info.Tombstoned &&
					prevPool.Sub(pool).Equal(sdk.NewInt(24000000)) && prevSupply.Sub(sup).Equal(sdk.NewInt(24000000)))
			} else if blk.h > 1 {
				paidOut := sdk.ZeroInt() // an unstaking that matured in this block left the pool for its owner's account
				if kind == 2 && blk.h == 3 && blk.late+time.Minute >= 21*24*time.Hour {
					paidOut = sdk.NewInt(24000000)
				}
				zz.Assert("C07.full.no-evidence-no-burn", pool.Equal(prevPool.Add(vStakedInBlock(blk.h, kind)).Sub(paidOut)) && sup.Equal(prevSupply))
			}
			zz.Assert("C07.full.other-validator-untouched", v3.StakedTokens.Equal(sdk.NewInt(23000000)) && v3.Status == sdk.Staked && !v3.Jailed)
			prevPool, prevSupply = pool, sup
		case "C17":
			pp, ap, gp := a.pk.GetParams(ctx), a.ak.GetParams(ctx), a.gk.GetParams(ctx)
			wantMax := postypes.DefaultMaxValidators
			if blk.h >= 2 && kind == 8 {
				wantMax = 1 // the owner's change, and only that
			}
			def := postypes.DefaultParams()
			def.MaxValidators = wantMax
			// (Keeper.GetParams reports MinSignedPerWindow as the absolute number of blocks, not the stored fraction: the
			// fraction is read from the parameter store itself)
			var minSigned sdk.Dec
			a.pk.Paramstore.Get(ctx, postypes.KeyMinSignedPerWindow, &minSigned)
			zz.Assert("C17.full.pos-parameters-change-only-by-their-owner", pp.UnstakingTime == def.UnstakingTime && pp.MaxValidators == def.MaxValidators &&
				pp.StakeDenom == def.StakeDenom && pp.StakeMinimum == def.StakeMinimum && pp.ProposerRewardPercentage == def.ProposerRewardPercentage &&
				pp.MaxEvidenceAge == def.MaxEvidenceAge && pp.SignedBlocksWindow == def.SignedBlocksWindow && minSigned.Equal(def.MinSignedPerWindow) &&
				pp.DowntimeJailDuration == def.DowntimeJailDuration && pp.SlashFractionDoubleSign.Equal(def.SlashFractionDoubleSign) &&
				pp.SlashFractionDowntime.Equal(def.SlashFractionDowntime))
			zz.Assert("C17.full.auth-parameters-unchanged", ap.Equal(authtypes.DefaultParams()))
			zz.Assert("C17.full.gov-parameters-unchanged", gp.DAOOwner.Equals(sdk.Address(k0.Address())) && len(gp.ACL) == 17 && gp.Upgrade.Height == 0)
			wantDAO := int64(5000000)
			if blk.h >= 2 && kind == 3 {
				wantDAO -= 1000000 // the DAO owner's transfer, by exactly the stated amount
			}
			zz.Assert("C17.full.dao-funds-move-only-by-the-owner", a.gk.GetDAOTokens(ctx).Equal(sdk.NewInt(wantDAO)))
		case "C06":
			_, p4 := vAppKey(4)
			ad4 := sdk.Address(p4.Address())
			v4, found4 := a.pk.GetValidator(ctx, ad4)
			bal4 := a.ak.GetCoins(ctx, ad4).AmountOf(sdk.DefaultStakeDenom).Int64()
			hU := int64(0) // the block in which validator 4 began to unstake
			if unstakeInBlock1 {
				hU = 1
			} else if kind == 2 {
				hU = 2
			}
			if hU > 0 && blk.h >= hU {
				fees := int64(100000) // it paid for its begin-unstake transaction
				if blk.h >= 3 {
					fees -= 200000 // and, as the proposer of block 2, collected that block's fees (two transactions)
				}
				// the unstaking completes UnstakingTime (21 days) after the time of block hU; block 3 is at 3 min + late
				matured := time.Duration(3-hU)*time.Minute+blk.late >= 21*24*time.Hour
				switch {
				case blk.h == 3 && blk.evidence:
					// convicted in the meantime: everything is burned, nothing is paid out
					zz.Assert("C06.full.convicted-unstaking-validator-gets-nothing", bal4 == 100000000-fees && (!found4 || (v4.Status == sdk.Unstaked && v4.StakedTokens.IsZero())))
				case blk.h == 3 && matured:
					zz.Assert("C06.full.unstaking-pays-out-at-the-first-block-past-maturity", bal4 == 100000000-fees+24000000 && (!found4 || (v4.Status == sdk.Unstaked && v4.StakedTokens.IsZero())))
				default:
					zz.Assert("C06.full.unstaking-keeps-the-stake-until-maturity", found4 && v4.Status == sdk.Unstaking && v4.StakedTokens.Equal(sdk.NewInt(24000000)) && bal4 == 100000000-fees)
				}
			} else if !(blk.h == 3 && blk.evidence) {
				zz.Assert("C06.full.status-changes-only-by-its-own-request", found4 && v4.Status == sdk.Staked && v4.StakedTokens.Equal(sdk.NewInt(24000000)))
			}
			_, p2 := vAppKey(2)
			v2, found2 := a.pk.GetValidator(ctx, sdk.Address(p2.Address()))
			zz.Assert("C06.full.new-validator-only-by-its-own-funded-stake", found2 == (kind == 1 && blk.h >= 2) && (!found2 || (v2.Status == sdk.Staked && v2.StakedTokens.Equal(vStakeAmount))))
		case "C09":
			_, p4 := vAppKey(4)
			v4, found4 := a.pk.GetValidator(ctx, sdk.Address(p4.Address()))
			zz.Assert("C09.full.endblock-batch-applicable", tm.apply(oa.end.ValidatorUpdates))
			zz.Assert("C09.full.tendermint-set==staked-unjailed-set", tm.matches(a, ctx))
			if blk.h == 3 && blk.evidence {
				info, _ := a.pk.GetValidatorSigningInfo(ctx, sdk.Address(p4.Address()))
				zz.Assert("C09.full.convicted-validator-stays-jailed-and-out-of-the-set", found4 && v4.Jailed && info.Tombstoned && tm[string(p4.RawBytes())] == 0)
			} else {
				matured := kind == 2 && blk.h == 3 && blk.late+time.Minute >= 21*24*time.Hour // paid out and removed
				zz.Assert("C09.full.refused-unjail-changes-nothing", (found4 && !v4.Jailed) || (!found4 && matured))
			}
		case "C04":
			zz.Assert("C04.full.pool==sum-of-stake", a.pk.GetStakedTokens(ctx).Equal(a.sumStake(ctx)))
		case "C05":
			zz.Assert("C05.full.endblock-batch-applicable", tm.apply(oa.end.ValidatorUpdates))
			zz.Assert("C05.full.tendermint-set==staked-unjailed-set", tm.matches(a, ctx))
		case "C10":
			// fees of this block wait in the collector for the next BeginBlock; everything older has been paid out
			paid := int64(0)
			for i := range oa.deliver {
				if blk.h != 2 || i > 0 || vPassesAnte {
					paid += 100000
				}
			}
			fc := a.ak.GetCoins(ctx, a.ak.GetModuleAddress(auth.FeeCollectorName)).AmountOf(sdk.DefaultStakeDenom)
			zz.Assert("C10.full.collector-holds-exactly-this-blocks-fees", fc.Equal(sdk.NewInt(paid)))
			// the proposer of block h-1 received the fees of block h-1 at the start of block h (proposers: 3, 4, 3)
			_, p3 := vAppKey(3)
			_, p4 := vAppKey(4)
			b3 := a.ak.GetCoins(ctx, sdk.Address(p3.Address())).AmountOf(sdk.DefaultStakeDenom).Int64()
			b4 := a.ak.GetCoins(ctx, sdk.Address(p4.Address())).AmountOf(sdk.DefaultStakeDenom).Int64()
			want3, want4 := int64(100000000), int64(100000000)
			if blk.h >= 2 {
				want3 += 100000 // fees of block 1
				if kind == 2 || kind == 10 {
					want4 -= 100000 // validator 4 paid for its begin-unstake / unjail transaction in block 2
				}
			}
			if blk.h >= 3 {
				want4 += 100000 // fees of block 2: the second transaction ...
				if vPassesAnte {
					want4 += 100000 // ... and the first one, unless the ante handler refused it
				}
				if kind == 2 && !blk.evidence && blk.late+time.Minute >= 21*24*time.Hour {
					want4 += 24000000 // its unstaking matured in this block
				}
			}
			zz.Assert("C10.full.previous-proposer-received-the-fees-once", b3 == want3 && b4 == want4)
			zz.Assert("C10.full.pos-module-keeps-nothing", a.ak.GetCoins(ctx, a.ak.GetModuleAddress(postypes.ModuleName)).IsZero())
		}
	}
	zz.Reach(p + ".full.end")
}

// VerifC01_FullApp: two replicas of the whole application (BaseApp, rootmulti + iavl, auth ante handler, auth / pos /
// gov modules through the module manager) run InitChain with a genesis document and the same three blocks - votes,
// double-sign evidence of symbolic age, one transaction of eight kinds; one replica is stopped after a symbolic height
// and rebuilt from its database: every consensus-relevant response and every app hash is identical, and Info after the
// restart reports the committed height and hash.
func VerifC01_FullApp() { vFullRun("C01") }

// VerifC02_FullApp: the same histories on one instance; after every Commit the recorded supply equals the sum of all
// balances, and it moves only in the block with a slash.
func VerifC02_FullApp() { vFullRun("C02") }

// vStakedInBlock: what block h adds to the staked pool (the stake transaction of kind 1 in block 2).
func vStakedInBlock(h int64, kind int) sdk.Int {
	if h == 2 && kind == 1 {
		return vStakeAmount
	}
	return sdk.ZeroInt()
}

// VerifC07_FullApp: in the block that carries confirmed double-sign evidence inside the evidence window the offender's
// whole stake leaves the pool and the supply and it ends up jailed, tombstoned and unstaked; without evidence nothing
// is burned; the other validator is never touched.
func VerifC07_FullApp() { vFullRun("C07") }

// VerifC11_FullApp: a second replica runs the same blocks without the transaction that is going to be rejected: a
// transaction refused by the ante handler (forged signature) leaves the app hash of every later block unchanged; one
// refused by its handler (stranger's DAO transfer or parameter change, overdrawn send, unjail request of a validator that is not jailed) costs its signer the fee and changes nothing else.
func VerifC11_FullApp() { vFullRun("C11") }

// VerifC17_FullApp: whole-application histories: the parameters of all three modules stay at their genesis values except
// that the owner's MsgChangeParam sets exactly pos/MaxValidators (a stranger's is refused), and the DAO balance moves
// only by the owner's transfer, by exactly its amount.
func VerifC17_FullApp() { vFullRun("C17") }

// VerifC06_FullApp: whole-application histories incl. a block three weeks later: a validator changes status only by its
// own transaction (stake, begin-unstake) or by conviction; an unstaking validator keeps its stake until the first block
// at or after begin + UnstakingTime, is then paid its whole stake, and gets nothing if it was convicted in between.
func VerifC06_FullApp() { vFullRun("C06") }

// VerifC09_FullApp: whole-application histories in which validator 4 asks to be unjailed - in block 2 (not jailed: refused)
// and in block 3, after the BeginBlock that may have convicted it for a double sign (tombstoned: refused for ever): the
// convicted validator is jailed, leaves tendermint's set with the next update and stays out.
func VerifC09_FullApp() { vFullRun("C09") }

// VerifC04_FullApp: after every Commit the staked pool holds exactly the recorded stake.
func VerifC04_FullApp() { vFullRun("C04") }

// VerifC05_FullApp: the validator updates of InitChain and of every EndBlock apply to a model of tendermint's set, which
// then equals the staked, unjailed validators with power floor(stake / 10^6).
func VerifC05_FullApp() { vFullRun("C05") }

// VerifC10_FullApp: after every Commit the fee collector holds exactly the fees of that block (earlier fees were paid
// out at BeginBlock) and the pos module account keeps nothing.
func VerifC10_FullApp() { vFullRun("C10") }
