// Package zzverif is the harness support library of /verif (injected into the
// repository with a build overlay; it does not exist on disk under /repo).
//
// Under the gosym engine every function below is intercepted by name and given
// symbolic semantics.  The bodies here are the *native* semantics used when a
// solver model is replayed against the real build: values come from the replay
// JSON named by $VERIF_REPLAY.
package zzverif

import (
	"encoding/json"
	"fmt"
	"io/ioutil"
	"math/big"
	"os"
	"strings"
	"testing"
	"time"
)

type replay struct {
	Harness  string            `json:"harness"`
	Values   map[string]string `json:"values"`
	Choices  map[string]int    `json:"choices"`
	Known    []string          `json:"known"`
	Thorough bool              `json:"thorough"`
	Repeat   int               `json:"repeat"`
}

type result struct {
	File     string            `json:"file"`
	Harness  string            `json:"harness"`
	Failed   []string          `json:"failed"`
	Panic    string            `json:"panic"`
	Reached  []string          `json:"reached"`
	Observed map[string]string `json:"observed"`
	Asserts  int               `json:"asserts"`
}

var (
	cur   replay
	names map[string]int
	res   result
)

type assertFailed struct{ id string }
type assumeFailed struct{}

func uniq(name string) string {
	names[name]++
	if n := names[name]; n > 1 {
		return fmt.Sprintf("%s#%d", name, n)
	}
	return name
}

func lookup(name string, lo, hi *big.Int) *big.Int {
	key := uniq(name)
	if s, ok := cur.Values[key]; ok {
		v, ok := new(big.Int).SetString(s, 10)
		if !ok {
			panic("zzverif: bad value for " + key)
		}
		if v.Cmp(lo) < 0 || v.Cmp(hi) > 0 {
			panic(fmt.Sprintf("zzverif: replay value %s=%s outside [%s,%s]", key, v, lo, hi))
		}
		return v
	}
	v := big.NewInt(0)
	if lo.Sign() > 0 {
		v.Set(lo)
	} else if hi.Sign() < 0 {
		v.Set(hi)
	}
	return v
}

func Int64(name string, lo, hi int64) int64 {
	return lookup(name, big.NewInt(lo), big.NewInt(hi)).Int64()
}
func Int(name string, lo, hi int) int {
	return int(lookup(name, big.NewInt(int64(lo)), big.NewInt(int64(hi))).Int64())
}
func Uint64(name string, lo, hi uint64) uint64 {
	return lookup(name, new(big.Int).SetUint64(lo), new(big.Int).SetUint64(hi)).Uint64()
}
func Byte(name string) byte { return byte(lookup(name, big.NewInt(0), big.NewInt(255)).Int64()) }
func Bool(name string) bool { return lookup(name, big.NewInt(0), big.NewInt(1)).Sign() != 0 }
func Bytes(name string, n int) []byte {
	base := uniq(name)
	out := make([]byte, n)
	for j := range out {
		key := fmt.Sprintf("%s[%d]", base, j)
		if s, ok := cur.Values[key]; ok {
			v, _ := new(big.Int).SetString(s, 10)
			out[j] = byte(v.Int64())
		}
	}
	return out
}
func Big(name string, lo, hi *big.Int) *big.Int {
	if lo.Cmp(hi) > 0 {
		panic(assumeFailed{})
	}
	return lookup(name, lo, hi)
}
func Choice(name string, n int) int {
	key := uniq(name)
	if n <= 0 {
		panic(assumeFailed{})
	}
	k := cur.Choices[key]
	if k < 0 || k >= n {
		panic(fmt.Sprintf("zzverif: replay choice %s=%d outside [0,%d)", key, k, n))
	}
	return k
}
func Assume(c bool) {
	if !c {
		panic(assumeFailed{})
	}
}
func Assert(id string, c bool) {
	res.Asserts++
	if !c {
		res.Failed = append(res.Failed, id)
		panic(assertFailed{id})
	}
}

// Hunt is Assert for bug-hunting obligations (a solver "unknown" does not make the check inconclusive).
func Hunt(id string, c bool) { Assert(id, c) }
func Reach(label string)     { res.Reached = append(res.Reached, label) }
func Known(id string) bool {
	for _, k := range cur.Known {
		if k == id {
			return true
		}
	}
	return false
}
func Symbolic() bool { return false }

// NondetMapOrder: under the engine every range over a small Go map forks over all iteration orders while on.
// Natively Go randomises map iteration itself; RunReplay repeats such a replay (field "repeat") until it fails.
func NondetMapOrder(on bool) {}

// ExactBigText: under the engine, decimal text of symbolic big integers is modelled digit by digit while on
// (otherwise an opaque placeholder, good enough for log and error messages).
func ExactBigText(on bool) {}

// Yield: under the engine, every other goroutine runs until it blocks or finishes (deterministic cooperative
// scheduler); natively a short sleep, long enough for the other goroutines of a harness to get there.
func Yield() { time.Sleep(20 * time.Millisecond) }

// RaceDetect: under the engine, switches happens-before data-race detection on (violations are reported under the
// given assertion id) or off (""); natively the replay binary of a package with *_Race harnesses is built with -race.
func RaceDetect(assertID string) {}

// TempDir: a fresh directory for on-disk state (natively a temporary directory; under the engine only a name - the
// file system is not modelled).
func TempDir(name string) string {
	if d, err := ioutil.TempDir("", "zzverif-"+name); err == nil {
		return d
	}
	return os.TempDir()
}

// SetEnv / GetEnv: environment answers chosen by the harness (e.g. whether the node's tx index contains the tx).
var env = map[string]bool{}

func SetEnv(name string, v bool) { env[name] = v }
func GetEnv(name string) bool    { return env[name] }

// Non-forking boolean connectives and byte-string predicates (the engine builds one SMT term instead of branching).
func And(a, b bool) bool     { return a && b }
func Or(a, b bool) bool      { return a || b }
func Not(a bool) bool        { return !a }
func Implies(a, b bool) bool { return !a || b }
func BytesEqual(a, b []byte) bool {
	if len(a) != len(b) {
		return false
	}
	for i := range a {
		if a[i] != b[i] {
			return false
		}
	}
	return true
}
func BytesLess(a, b []byte) bool {
	for i := 0; i < len(a) && i < len(b); i++ {
		if a[i] != b[i] {
			return a[i] < b[i]
		}
	}
	return len(a) < len(b)
}
func Thorough() bool { return cur.Thorough }
func Logf(format string, a ...interface{}) {
	if os.Getenv("VERIF_VERBOSE") != "" {
		fmt.Printf("zzverif: "+format+"\n", a...)
	}
}

// RunReplay is called from the generated TestVerifReplay.
func RunReplay(t *testing.T, harnesses map[string]func()) {
	files := strings.Split(os.Getenv("VERIF_REPLAY"), ",")
	for _, f := range files {
		if f == "" {
			continue
		}
		bz, err := ioutil.ReadFile(f)
		if err != nil {
			t.Fatalf("zzverif: %v", err)
		}
		cur = replay{}
		if err := json.Unmarshal(bz, &cur); err != nil {
			t.Fatalf("zzverif: %v", err)
		}
		names = map[string]int{}
		res = result{File: f, Harness: cur.Harness, Observed: map[string]string{}}
		fn, ok := harnesses[cur.Harness]
		if !ok {
			t.Fatalf("zzverif: unknown harness %q", cur.Harness)
		}
		reps := cur.Repeat
		if reps < 1 {
			reps = 1
		}
		for rep := 0; rep < reps && len(res.Failed) == 0 && (res.Panic == "" || res.Panic == "ASSUME-FAILED"); rep++ {
			names = map[string]int{}
			res = result{File: f, Harness: cur.Harness, Observed: map[string]string{}}
			func() {
				defer func() {
					if r := recover(); r != nil {
						switch r := r.(type) {
						case assertFailed:
						case assumeFailed:
							res.Panic = "ASSUME-FAILED"
						default:
							res.Panic = fmt.Sprintf("%v", r)
							if len(res.Panic) > 600 {
								res.Panic = res.Panic[:600]
							}
						}
					}
				}()
				fn()
			}()
		}
		out, _ := json.Marshal(res)
		fmt.Printf("VERIF-RESULT: %s\n", out)
	}
}
