// Package vtree: a fake implementation of the Tree interface of store/iavl (the contract of tendermint/iavl's
// MutableTree as documented: versions are saved atomically, SaveVersion increments the version, DeleteVersion removes a
// saved version that is not the latest, versioned reads see the content saved at that version).
// The Merkle part (hashes, range proofs) is reduced to tokens: Hash() = a byte string determined by the saved content
// version, proofs are opaque non-nil values.  Plain Go, used both by the engine and by native replays.
package vtree

import (
	"bytes"
	"fmt"

	"github.com/pkg/errors"
	"github.com/tendermint/iavl"
)

type kv struct{ k, v []byte }

type Tree struct {
	Working  []kv
	Saved    map[int64][]kv // content of every retained version
	Latest   int64
	Events   *int // shared write-event counter (crash injection), may be nil
	CrashAt  *int // events with index >= *CrashAt do not happen: the call panics with Crash{}
	Deleted  []int64
}

type Crash struct{}

func New() *Tree { return &Tree{Saved: map[int64][]kv{}} }

func (t *Tree) event() {
	if t.Events == nil {
		return
	}
	if t.CrashAt != nil && *t.Events >= *t.CrashAt {
		panic(Crash{})
	}
	*t.Events++
}

func (t *Tree) find(key []byte) int {
	for i := range t.Working {
		if bytes.Equal(t.Working[i].k, key) {
			return i
		}
	}
	return -1
}

func (t *Tree) Has(key []byte) bool { return t.find(key) >= 0 }
func (t *Tree) Get(key []byte) (int64, []byte) {
	if i := t.find(key); i >= 0 {
		return int64(i), append([]byte{}, t.Working[i].v...)
	}
	return 0, nil
}
func (t *Tree) Set(key, value []byte) bool {
	if i := t.find(key); i >= 0 {
		t.Working[i].v = append([]byte{}, value...)
		return true
	}
	t.Working = append(t.Working, kv{append([]byte{}, key...), append([]byte{}, value...)})
	return false
}
func (t *Tree) Remove(key []byte) ([]byte, bool) {
	if i := t.find(key); i >= 0 {
		v := t.Working[i].v
		t.Working = append(t.Working[:i:i], t.Working[i+1:]...)
		return v, true
	}
	return nil, false
}

func (t *Tree) SaveVersion() ([]byte, int64, error) {
	next := t.Latest + 1
	if old, ok := t.Saved[next]; ok {
		// documented contract: re-saving an already saved version with identical content is idempotent, different content is an error
		same := len(old) == len(t.Working)
		for i := 0; same && i < len(old); i++ {
			if !bytes.Equal(old[i].k, t.Working[i].k) || !bytes.Equal(old[i].v, t.Working[i].v) {
				same = false
			}
		}
		if !same {
			return nil, next, fmt.Errorf("version %d was already saved to different hash", next)
		}
		t.Latest = next
		return t.Hash(), t.Latest, nil
	}
	t.event()
	t.Latest = next
	cp := make([]kv, len(t.Working))
	copy(cp, t.Working)
	t.Saved[t.Latest] = cp
	return t.Hash(), t.Latest, nil
}

// LoadVersion: what a restarted process does: the working tree becomes the content saved at version v
// (later versions stay on disk).
func (t *Tree) LoadVersion(v int64) {
	t.Latest = v
	t.Working = append([]kv{}, t.Saved[v]...)
}

func (t *Tree) DeleteVersion(version int64) error {
	if version == t.Latest {
		return fmt.Errorf("cannot delete latest saved version (%d)", version)
	}
	if _, ok := t.Saved[version]; !ok {
		// tendermint/iavl returns this error wrapped
		return errors.Wrap(iavl.ErrVersionDoesNotExist, "")
	}
	t.event()
	delete(t.Saved, version)
	t.Deleted = append(t.Deleted, version)
	return nil
}

func (t *Tree) Version() int64 { return t.Latest }

// Hash: a token of the latest saved content (version number + number of entries + first value byte).
func (t *Tree) Hash() []byte {
	c := t.Saved[t.Latest]
	h := []byte{byte(t.Latest), byte(len(c))}
	for _, e := range c {
		h = append(h, e.k...)
		h = append(h, 0xFF)
		h = append(h, e.v...)
	}
	return h
}

func (t *Tree) VersionExists(version int64) bool {
	_, ok := t.Saved[version]
	return ok
}

func (t *Tree) GetVersioned(key []byte, version int64) (int64, []byte) {
	c, ok := t.Saved[version]
	if !ok {
		return -1, nil
	}
	for i, e := range c {
		if bytes.Equal(e.k, key) {
			return int64(i), append([]byte{}, e.v...)
		}
	}
	return -1, nil
}

func (t *Tree) GetVersionedWithProof(key []byte, version int64) ([]byte, *iavl.RangeProof, error) {
	if _, ok := t.Saved[version]; !ok {
		return nil, nil, iavl.ErrVersionDoesNotExist
	}
	_, v := t.GetVersioned(key, version)
	return v, &iavl.RangeProof{}, nil
}

func (t *Tree) GetImmutable(version int64) (*iavl.ImmutableTree, error) {
	if _, ok := t.Saved[version]; !ok {
		return nil, iavl.ErrVersionDoesNotExist
	}
	return nil, nil
}
