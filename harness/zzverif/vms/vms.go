// Package vms: a fake root MultiStore whose leaves are vstore.Mem, with the real cachekv/cachemulti on top.
package vms

import (
	"io"

	"github.com/pokt-network/posmint/store/cachekv"
	"github.com/pokt-network/posmint/store/cachemulti"
	"github.com/pokt-network/posmint/store/types"
	"github.com/pokt-network/posmint/zzverif/vstore"
)

// Leaf is a vstore.Mem that can be cache-wrapped with the real cachekv.
type Leaf struct{ *vstore.Mem }

func (l Leaf) CacheWrap() types.CacheWrap { return cachekv.NewStore(l) }
func (l Leaf) CacheWrapWithTrace(w io.Writer, tc types.TraceContext) types.CacheWrap {
	return cachekv.NewStore(l)
}

type MS struct {
	Keys   []types.StoreKey
	Leaves []Leaf
	db     Leaf
}

var _ types.MultiStore = (*MS)(nil)

func New(keys ...types.StoreKey) *MS {
	m := &MS{db: Leaf{vstore.New()}}
	for _, k := range keys {
		m.Keys = append(m.Keys, k)
		m.Leaves = append(m.Leaves, Leaf{vstore.New()})
	}
	return m
}

func (m *MS) Leaf(key types.StoreKey) *vstore.Mem {
	for i, k := range m.Keys {
		if k == key {
			return m.Leaves[i].Mem
		}
	}
	panic("vms: unknown store key " + key.Name())
}

func (m *MS) GetStoreType() types.StoreType { return types.StoreTypeMulti }
func (m *MS) CacheWrap() types.CacheWrap    { return m.CacheMultiStore().(types.CacheWrap) }
func (m *MS) CacheWrapWithTrace(io.Writer, types.TraceContext) types.CacheWrap {
	return m.CacheWrap()
}
func (m *MS) CacheMultiStore() types.CacheMultiStore {
	stores := make(map[types.StoreKey]types.CacheWrapper)
	keys := make(map[string]types.StoreKey)
	for i, k := range m.Keys {
		stores[k] = m.Leaves[i]
		keys[k.Name()] = k
	}
	return cachemulti.NewFromKVStore(m.db, stores, keys, nil, nil)
}
func (m *MS) CacheMultiStoreWithVersion(int64) (types.CacheMultiStore, error) {
	panic("vms: CacheMultiStoreWithVersion not modelled")
}
func (m *MS) GetStore(key types.StoreKey) types.Store     { return Leaf{m.Leaf(key)} }
func (m *MS) GetKVStore(key types.StoreKey) types.KVStore { return Leaf{m.Leaf(key)} }
func (m *MS) TracingEnabled() bool                        { return false }
func (m *MS) SetTracer(io.Writer) types.MultiStore        { return m }
func (m *MS) SetTracingContext(types.TraceContext) types.MultiStore {
	return m
}

// Snapshot copies every leaf (for before/after comparison).
func (m *MS) Snapshot() []*vstore.Mem {
	var out []*vstore.Mem
	for _, l := range m.Leaves {
		out = append(out, l.Mem.Clone())
	}
	return out
}

// Same reports whether all leaves equal the snapshot.
func (m *MS) Same(snap []*vstore.Mem) bool {
	for i, l := range m.Leaves {
		if !vstore.SameContent(l.Mem, snap[i]) {
			return false
		}
	}
	return true
}

// CLeaf is a committable leaf store (stands for an IAVL / transient substore under rootmulti.Store).
type CLeaf struct {
	Leaf
	Typ       types.StoreType
	Ver       *int64 // last committed version (shared by copies of the struct)
	Transient bool
}

var _ types.CommitKVStore = CLeaf{}

func NewCLeaf(typ types.StoreType) CLeaf {
	v := int64(0)
	return CLeaf{Leaf: Leaf{vstore.New()}, Typ: typ, Ver: &v, Transient: typ == types.StoreTypeTransient}
}

func (c CLeaf) GetStoreType() types.StoreType { return c.Typ }
func (c CLeaf) Commit() types.CommitID {
	*c.Ver++
	if c.Transient {
		c.Mem.E = nil
		return types.CommitID{}
	}
	return types.CommitID{Version: *c.Ver, Hash: []byte{byte(*c.Ver)}}
}
func (c CLeaf) LastCommitID() types.CommitID {
	if c.Transient {
		return types.CommitID{}
	}
	return types.CommitID{Version: *c.Ver, Hash: []byte{byte(*c.Ver)}}
}
func (c CLeaf) SetPruning(types.PruningOptions) {}
func (c CLeaf) CacheWrap() types.CacheWrap      { return cachekv.NewStore(c) }
func (c CLeaf) CacheWrapWithTrace(w io.Writer, tc types.TraceContext) types.CacheWrap {
	return cachekv.NewStore(c)
}
